"""C07 Representation codes decode per the standards; encoders invert decoders.

Legs (design parts):
 (a) every 8/16 bit word of LIS 49/56/66/77/79, RP66V1 SSHORT/USHORT/STATUS/SNORM/UNORM, every 1- and 2-byte UVARI;
 (b) 32/64 bit codes: all sign x exponent-field values x boundary mantissas, plus bijectively scrambled
     (hence distinct) random words, through the user-facing entry points and each implementation individually;
 (c) variable-length RP66V1 codes with a prefix, sentinel bytes, truncations; consumption and the *_len helpers;
 (d) to68 of the three implementations: bit-for-bit agreement, decode-encode-decode equivalence, 2^-22 bound;
     ReadBIT.bytes_to_float against ISINGL;
 (f) the other public ways in: RepCode.fromRepCode, readRepCode / readNN through an object offering File.unpack (the path
     the LIS record readers use), pRepCode.readNN, the integer writers (writeBytes 66/73/79), wordLength,
     rep_code_fixed_length / is_fixed_length, *_len on bytearray; mixed sequences of values decoded one after the other
     from a single LogicalData / file object against the same bytes decoded in isolation;
 (e) sanitizers: native/c68_sweep.cpp (tree's LISRepCode.cpp, ASan+UBSan) and the ASan+UBSan builds of
     cRepCode / cpRepCode / cFrameSet driven in a child interpreter with the ASan runtime preloaded.
The shards themselves run the 'plain' (gcc) rebuild; every sanitizer leg is a bounded subprocess of a shard.
"""
import json
import math
import os
import pickle
import re
import struct
import subprocess
import sys
import hashlib
import fcntl
from fractions import Fraction

ID = 'C07'
TITLE = 'Representation codes per the standards; encoders invert decoders'
NATIVE = 'plain'
NEEDS = ()
NSHARDS = 16

RULE = ('A case is one (code, word) or one (code, byte string, offset) or one (encoder, double).  Exhaustive: all 2^8 / 2^16 '
        'words of the 8/16 bit codes, all 1- and 2-byte UVARI, every sign x exponent-field value of each 32/64 bit '
        'code crossed with the boundary mantissas {0, 1, 2^k, 2^k+-1, all ones}; thorough tier: all 2^32 code 68 words '
        'in the native sweep.  Random 32/64 bit words are images of disjoint index ranges under a bijective mixer, so '
        'they are distinct across shards by construction.  Non-trivial: every word except the all-zero word; a '
        'variable-length case is non-trivial when its value part is non-empty or it is truncated.')
ASSUMPTIONS = [
    'ReadBIT.float_to_bytes (the IBM single encoder) is held to "encoders invert decoders" inside the range of normalised IBM singles only, 16^-64 <= |x| < 16^63: below it the encoder clamps the exponent field at 0 without shifting the fraction (word 8002d5e8 -> 802d5e80), which the property does not speak about; the loss bound used is the format\'s own 2^-20 (24 fraction bits, up to three leading zeros), not code 68\'s 2^-22',
    'LIS code 68 is read field-wise: 24 bit two\'s complement fraction (sign bit + 23 bits) and an excess-128 exponent stored one\'s complemented when the sign is set; so S=1, F=0 means fraction -1.0',
    'a word is handed to pRepCode/cRepCode fromNN exactly as RepCode\'s own plumbing would hand it over (the integer STRUCT_RC_NN unpacks); RepCode.fromNN of codes 49/50/68/70 additionally receives the unsigned word, as the repository tests do',
    'LIS code 50 words whose exact value M*2^E is not a float64 (16 bit exponent) are not asserted (nothing a float-returning decoder does can be right); they are counted',
    'VAX reserved operand (sign 1, exponent 0) is not asserted; VAX sign 0, exponent 0 is zero whatever the fraction',
    'IEEE NaN: only NaN-ness is asserted, not the payload; signed zeros of FSINGL/FDOUBL are compared by sign, zeros of all other codes by value',
    'non-canonical UVARI (a value that fits a shorter form): consumption is asserted, the value is not',
    'STATUS bytes other than 0 and 1, UNITS with characters outside the permitted set, DTIME fields outside their ranges: consumption is asserted, the value is not',
    'truncated variable-length input must raise (any exception); no value may be returned',
    'encoders: finite doubles only (and Python ints that are exactly a double and fit a C long); NaN and infinities are outside the quantifier',
    'in-range for the 2^-22 bound means 2^-128 <= |v| < 2^127',
    'the *_len helpers are asserted only where the complete value is present in the buffer (their docstrings exclude short buffers)',
    'sanitizer reports located in the harness or generated wrapper code rather than in a tree source file make the run inconclusive, not violated',
    'readRepCode / readNN are given an object with the one method they use (unpack(struct) on the bytes at its position, as LIS File.FileRead.unpack does); the physical file plumbing is C05',
    'integer writers: writeBytes(v, 66/73/79) of a decoded value must give back the word (integer codes: equivalent = identical); codes without a writer (49, 50, 56, 70, 77) and values outside the code range are not asserted',
    'sequential decoding: a value decoded from a shared LogicalData / file object must equal the value the same bytes give when decoded alone (which the other legs compare with the reference) and advance the position by the same amount',
]
_P, _R, _B = 'TotalDepth.LIS.core.pRepCode', 'TotalDepth.RP66V1.core.pRepCode', 'TotalDepth.BIT.ReadBIT'
MECHANISMS = ([(_P, n) for n in ('from49', 'from50', 'from56', 'from66', 'from68', 'from70', 'from73', 'from77', 'from79', 'to68')]
              + [('TotalDepth.LIS.core.RepCode', n) for n in ('readBytes', 'writeBytes', 'readBytes49', 'readBytes50', 'readBytes68',
                                                                'readBytes70', 'readBytes73', 'readBytes79', 'writeBytes68', 'fromRepCode', 'readRepCode',
                                                                'read49', 'read50', 'read56', 'read66', 'read68', 'read70', 'read73', 'read77', 'read79',
                                                                'writeBytes66', 'writeBytes73', 'writeBytes79')]
              + [(_P, n) for n in ('read49', 'read68', 'read79', 'wordLength')]
              + [(_R, n) for n in ('rep_code_fixed_length', 'is_fixed_length')]
              + [(_R, n) for n in ('FSINGL', 'ISINGL', 'VSINGL', 'FDOUBL', 'SSHORT', 'SNORM', 'SLONG', 'USHORT', 'UNORM', 'ULONG',
                                   'UVARI', 'UVARI_len', 'IDENT', 'IDENT_len', 'ASCII', 'DTIME', 'ORIGIN', 'ORIGIN_len', 'OBNAME',
                                   'OBNAME_len', 'OBJREF', 'STATUS', 'UNITS', 'code_read')]
              + [(_B, 'bytes_to_float')])
REQUIRED_MONITORS = ['exact_reference', 'differential_from68', 'differential_to68', 'consumption', 'len_helpers',
                     'truncated_must_raise', 'encoder_equivalence', 'encoder_bound', 'bit_vs_isingl', 'bit_encoder_inverts_decoder', 'ref_selfcheck', 'sequential_stream', 'same_bytes_other_code', 'integer_writers',
                     'sanitizer_harness_words', 'sanitizer_module_calls']
MIN_NONTRIVIAL = {'quick': 3000000, 'thorough': 400000000}
TIMEOUT_S = {'quick': 400, 'thorough': 3400}
LEVEL_TEXT = ('Exhaustive for the 8/16 bit codes and (thorough tier) for all 2^32 code 68 words in the native sweep; stratified plus '
              'random sampling of the other 32/64 bit codes and of the encoders\' domain, exact comparison with an independent '
              'Fraction/integer reference, three-way differential of the code 68 implementations, ASan+UBSan on the native code.')
LEVEL_NOTE = ('Trusted: tdv/ref/repcodes.py (cross-checked scalar vs vectorised every run), numpy ldexp exactness, clang sanitizer '
              'runtimes.  Not exhaustive for 32 bit codes other than 68 nor for doubles.')
TECHNIQUE = 'runtime monitoring: exact independent reference + n-way differential + sanitizers (ASan/UBSan) on rebuilt native code'

N_RANDOM = {'quick': 40000, 'thorough': 1900000}          # per code per shard
N_VAR = {'quick': 1500, 'thorough': 40000}                # per variable-length code per shard
N_ENC = {'quick': 40000, 'thorough': 1500000}             # doubles per shard
SWEEP_STRIDE = {'quick': 13, 'thorough': 1}
N_TO68_NATIVE = {'quick': 1 << 20, 'thorough': 6500000}   # per shard
N_ASAN = {'quick': 12000, 'thorough': 60000}              # words per 32 bit code in the sanitizer child of a shard
BATCH = 32768
CAP = 20            # unexplained violations recorded per (code, entry) and shard
CAP_KNOWN = 2       # explained (known mechanism) instances sent to the recorder per (code, entry) and shard


def plan(tier, seed):
    return [{'part': i, 'parts': NSHARDS} for i in range(NSHARDS)]


# ======================================================================================================================
# classifiers (decide from the witness alone; recompute the wrong formula exactly)
# ======================================================================================================================
from tdv.core.findings import classifier  # noqa: E402


def _obs_float(w):
    if w.get('observed_kind') != 'float':
        return None
    return float.fromhex(w['observed'])


def _pow2(e):
    return Fraction(1 << e) if e >= 0 else Fraction(1, 1 << -e)


def _twos(v, bits):
    v &= (1 << bits) - 1
    return v - (1 << bits) if v >> (bits - 1) else v


def _frac(s):
    return Fraction(s) if isinstance(s, str) and s not in ('nan', '+inf', '-inf', 'reserved-operand') else None


@classifier('c07_vsingl_mantissa_scale')
def _c_f4(v):
    """F4: VSINGL computes (0.5 + f/2^23) * 2^(e-128) where VAX F_floating defines (0.5 + f/2^24) * 2^(e-128)."""
    w = v['witness']
    if v['monitor'] != 'exact_reference' or w.get('code') != 'VSINGL':
        return False
    o = _obs_float(w)
    if o is None or o != o or o in (float('inf'), float('-inf')):
        return False
    b = bytes.fromhex(w['bytes'])
    s = b[1] & 0x80
    f = ((b[0] & 0x7F) << 16) | (b[3] << 8) | b[2]
    e = ((b[1] & 0x7F) << 1) | (b[0] >> 7)
    if e == 0 or f == 0:
        return False
    wrong = (Fraction(1, 2) + Fraction(f, 1 << 23)) * _pow2(e - 128)
    right = (Fraction(1, 2) + Fraction(f, 1 << 24)) * _pow2(e - 128)
    if s:
        wrong, right = -wrong, -right
    return Fraction(o) == wrong and _frac(w.get('expected')) == right


def _lis50_fields(word):
    return (word >> 16) & 0xFFFF, _twos(word, 16)


@classifier('c07_lis50_negative_exponent')
def _c_f5(v):
    """F5: from50 keeps 10 exponent bits and subtracts 2^16 when the exponent sign bit is set, so every negative
    exponent becomes about -64500 and the result underflows to zero."""
    w = v['witness']
    if v['monitor'] != 'exact_reference' or w.get('code') != 'LIS50':
        return False
    o = _obs_float(w)
    if o is None:
        return False
    e16, m = _lis50_fields(w['word'])
    if e16 < 0x8000 or m == 0:
        return False
    wrong_exp = (e16 & 0x3FF) - 15 - 0x10000
    # |m| < 2^16, so |m * 2^wrong_exp| < 2^-64400: the float64 nearest to the wrong formula is zero
    return wrong_exp + 16 < -1075 and o == 0.0 and _frac(w.get('expected')) == Fraction(m, 1 << 15) * _pow2(_twos(e16, 16))


@classifier('c07_lis50_exponent_10bit_mask')
def _c_f5b(v):
    """from50 masks a non-negative exponent to 10 bits (pinned by TestRepCodeFrom50.test_min/test_max: exponent 0x7FFF
    is read as 1023), so exponents 1024..1038 with a small fraction - values that are float64 - alias to E-1024."""
    w = v['witness']
    if v['monitor'] != 'exact_reference' or w.get('code') != 'LIS50':
        return False
    o = _obs_float(w)
    if o is None or o != o or o in (float('inf'), float('-inf')):
        return False
    e16, m = _lis50_fields(w['word'])
    if e16 >= 0x8000 or e16 < 1024 or m == 0:
        return False
    return Fraction(o) == Fraction(m) * _pow2((e16 & 0x3FF) - 15)


@classifier('c07_from70_unsigned_argument')
def _c_n1(v):
    """STRUCT_RC_70 unpacks a signed 32 bit integer but cRepCode.from70 declares `unsigned int theWord`: every code 70
    word with the sign bit set raises OverflowError on the user-facing path."""
    w = v['witness']
    if v['monitor'] != 'exact_reference' or w.get('code') != 'LIS70' or w.get('observed_kind') != 'raise':
        return False
    if not w['observed'].startswith("OverflowError:can't convert negative value to unsigned int"):
        return False
    if w.get('entry') not in ('RepCode.readBytes', 'cRepCode.from70', 'RepCode.from70'):
        return False
    if w.get('form') != 'bytes' and not (isinstance(w.get('passed'), int) and w['passed'] < 0):
        return False
    return w['word'] >= 0x80000000


@classifier('c07_to68_min_clamp')
def _c_n2(v):
    """to68 clamps when frexp's exponent exceeds 127; for v = -2^127 (= from68(0x80000000), frexp -> (-0.5, 128)) that
    discards a representable value, and the clamp constant 0xFFC00000 decodes to -2^-129, not to the minimum."""
    w = v['witness']
    if v['monitor'] != 'encoder_equivalence':
        return False
    val = float.fromhex(w['value'])
    return val == -math.ldexp(1.0, 127) and math.frexp(val)[1] > 127 and w.get('reencoded') == 0xFFC00000


@classifier('c07_to68_negative_cast_ub')
def _c_f6(v):
    """F6: _to68 does static_cast<uint32_t>(mantissa * (1 << 23)) with a negative mantissa."""
    w = v['witness']
    if v['monitor'] != 'sanitizer' or w.get('tool') != 'ubsan':
        return False
    if os.path.basename(w.get('file', '')) != 'LISRepCode.cpp' or not str(w.get('function', '')).startswith('_to68'):
        return False
    m = re.match(r"^(-?[0-9.]+(?:e[+-]?\d+)?) is outside the range of representable values of type 'unsigned int'$", w.get('message', ''))
    if not m:
        return False
    x = float(m.group(1))
    # frexp mantissa in (-1, -0.5] times 2^23 (printed with 6 significant digits)
    if not (-8388608.0 * 1.00001 <= x <= -0.5):
        return False
    return 'static_cast<uint32_t>(mantissa' in w.get('source_text', '')


# ======================================================================================================================
# helpers
# ======================================================================================================================
class Raised:
    __slots__ = ('exc',)

    def __init__(self, exc):
        self.exc = exc


def call_list(f, xs):
    try:
        return [f(x) for x in xs], 0
    except Exception:
        pass
    out, n = [], 0
    for x in xs:
        try:
            out.append(f(x))
        except Exception as e:
            out.append(Raised(e))
            n += 1
    return out, n


def describe(o):
    """-> (kind, text) for a witness."""
    if isinstance(o, Raised):
        return 'raise', '%s:%s' % (type(o.exc).__name__, str(o.exc)[:200])
    if isinstance(o, bool):
        return 'other', repr(o)
    if isinstance(o, float):
        return 'float', o.hex()
    if isinstance(o, int):
        return 'int', str(o)
    return 'other', repr(o)[:200]


def code_name(code):
    return 'LIS%d' % code if isinstance(code, int) else code


def fmix32(x, np):
    x = x.astype(np.uint32)
    x ^= x >> np.uint32(16)
    x *= np.uint32(0x85EBCA6B)
    x ^= x >> np.uint32(13)
    x *= np.uint32(0xC2B2AE35)
    x ^= x >> np.uint32(16)
    return x


def fmix64(x, np):
    x = x.astype(np.uint64)
    x ^= x >> np.uint64(33)
    x *= np.uint64(0xFF51AFD7ED558CCD)
    x ^= x >> np.uint64(33)
    x *= np.uint64(0xC4CEB9FE1A85EC53)
    x ^= x >> np.uint64(33)
    return x


def boundary_set(bits):
    s = {0, (1 << bits) - 1}
    for k in range(bits):
        for d in (-1, 0, 1):
            s.add(((1 << k) + d) & ((1 << bits) - 1))
    return sorted(s)


class State:
    """Everything a leg needs; also usable inside the sanitizer child."""

    def __init__(self, rec, tier, part, parts, seed_key, under=''):
        self.rec, self.tier, self.part, self.parts, self.under = rec, tier, part, parts, under
        self.seed_key = seed_key
        self.reported = {}
        self.known_reported = {}

    def want(self, key, explained):
        d = self.known_reported if explained else self.reported
        cap = CAP_KNOWN if explained else CAP
        n = d.get(key, 0)
        if n >= cap:
            return False
        d[key] = n + 1
        return True


# ---- vectorised images of the known wrong formulas: used ONLY to pre-sort floods of mismatches so that a different
# ---- mismatch can never be hidden behind the per-key cap.  Classification itself is done by the classifiers above.
def np_wrong(code, words, np, R):
    w = words.astype(np.int64)
    if code == 'VSINGL':
        b0, b1, b2, b3 = (w >> 24) & 0xFF, (w >> 16) & 0xFF, (w >> 8) & 0xFF, w & 0xFF
        s = b1 & 0x80
        f = ((b0 & 0x7F) << 16) | (b3 << 8) | b2
        e = ((b1 & 0x7F) << 1) | (b0 >> 7)
        v = np.ldexp(((1 << 22) + f).astype(np.float64), (e - 151).astype(np.int32))
        v = np.where(s != 0, -v, v)
        return np.where((e == 0) & (s == 0), 0.0, v)
    if code == 50:
        e16 = (w >> 16) & 0xFFFF
        m = R.np_twos(w, 16)
        ex = (e16 & 0x3FF) - 15 - np.where(e16 >= 0x8000, 0x10000, 0)
        with np.errstate(under='ignore', over='ignore'):
            return np.ldexp(m.astype(np.float64), ex.astype(np.int32))
    return None


def check_batch(S, code, words, entries, np, R, tag=None):
    """words: uint64 array of unsigned words.  entries: list of (name, form, fn).  Compare every entry's result on
    every word with the exact reference.  Returns {name: result list} for differential use."""
    rec = S.rec
    cname = code_name(code)
    size = R.code_size(code)
    bits = 8 * size
    exp, asserted, nan = R.np_decode(code, words)
    is_int = exp.dtype.kind == 'i'
    ieee = code in ('FSINGL', 'FDOUBL')
    wl = words.tolist()
    forms = {}
    results = {}
    n_assert = int(asserted.sum())
    rec.add('words_checked:%s%s' % (tag or cname, S.under), len(wl))
    if n_assert != len(wl):
        rec.add('words_not_asserted:%s%s' % (tag or cname, S.under), len(wl) - n_assert)
    exp_list = exp.tolist() if is_int else None
    for name, form, fn in entries:
        if form not in forms:
            if form == 'bytes':
                forms[form] = [x.to_bytes(size, 'big') for x in wl]
            elif form == 'unsigned':
                forms[form] = wl
            elif form == 'signed':
                forms[form] = R.np_twos(words, bits).tolist()
            else:
                raise KeyError(form)
        xs = forms[form]
        got, nexc = call_list(fn, xs)
        results[name] = got
        rec.mon('exact_reference', n_assert)
        rec.add('calls:%s%s' % (name, S.under), len(xs))
        bad_idx = None
        arr = None
        if nexc == 0:
            if is_int:
                if got == exp_list and bool(asserted.all()):
                    bad_idx = ()
                else:
                    bad_idx = [i for i in range(len(wl)) if asserted[i] and not (type(got[i]) in (int, float) and got[i] == exp_list[i])]
            else:
                try:
                    arr = np.array(got, dtype=np.float64)
                except Exception:
                    arr = None
                if arr is not None:
                    ok = arr == exp
                    if ieee:
                        ok &= np.signbit(arr) == np.signbit(exp)
                    ok |= nan & np.isnan(arr)
                    bad_idx = np.nonzero(asserted & ~ok)[0]
        if bad_idx is None:
            bad_idx = []
            for i, o in enumerate(got):
                if not asserted[i]:
                    continue
                if isinstance(o, Raised) or isinstance(o, bool) or not isinstance(o, (int, float)):
                    bad_idx.append(i)
                elif is_int:
                    if o != exp_list[i]:
                        bad_idx.append(i)
                else:
                    e = float(exp[i])
                    if nan[i]:
                        if o == o:
                            bad_idx.append(i)
                    elif not (o == e) or (ieee and math.copysign(1.0, o) != math.copysign(1.0, e)):
                        bad_idx.append(i)
        if len(bad_idx) == 0:
            continue
        bad_idx = np.asarray(bad_idx, dtype=np.int64)
        rec.add('mismatches:%s:%s%s' % (cname, name, S.under), len(bad_idx))
        # pre-sort: explained by a known wrong formula?
        explained = np.zeros(len(bad_idx), bool)
        wr = np_wrong(code, words[bad_idx], np, R)
        if wr is not None:
            if arr is not None:
                explained = arr[bad_idx] == wr
            else:
                nanv = float('nan')
                gv = np.array([float(got[i]) if type(got[i]) in (int, float) else nanv for i in bad_idx.tolist()], dtype=np.float64)
                explained = gv == wr
        if code == 70 and arr is None:
            explained = explained | np.array([isinstance(got[i], Raised) and isinstance(got[i].exc, OverflowError) and wl[i] >= 0x80000000
                                              for i in bad_idx.tolist()], bool)
        rec.add('mismatches_matching_a_known_wrong_formula:%s:%s%s' % (cname, name, S.under), int(explained.sum()))
        key = (cname, name)
        order = list(np.nonzero(~explained)[0][:CAP * 3]) + list(np.nonzero(explained)[0][:CAP_KNOWN * 2])
        for j in order:
            i = int(bad_idx[j])
            word = wl[i]
            if not S.want(key + ((word >> (bits - 1)),) if explained[j] else key, bool(explained[j])):
                continue
            x = R.scalar_value(code, word)
            kind, text = describe(got[i])
            d = R.exact_double(x) if x not in R.MARKERS else None
            wit = {'code': cname, 'entry': name, 'form': form, 'word': word, 'bytes': word.to_bytes(size, 'big').hex(),
                   'passed': xs[i] if not isinstance(xs[i], bytes) else None, 'observed': text, 'observed_kind': kind,
                   'expected': R.show_exact(x), 'expected_float': d.hex() if isinstance(d, float) else None, 'build': S.under or 'plain'}
            rec.violation('exact_reference', 'value', '%s %s(%s word %#x) -> %s, the standard defines %s' % (
                cname, name, form, word, text if kind != 'float' else repr(got[i]), R.show_exact(x) if d is None else repr(d)), wit,
                exc=got[i].exc if isinstance(got[i], Raised) else None)
    return results


def differential(S, label, monitor, words_or_vals, results, names, np, as_float):
    """Bit-for-bit agreement of several implementations' result lists."""
    rec = S.rec
    base = names[0]
    a = results[base]
    rec.mon(monitor, len(a) * (len(names) - 1))
    for other in names[1:]:
        b = results[other]
        if a == b and not as_float:
            continue
        if as_float:
            try:
                aa = np.array(a, dtype=np.float64).view(np.uint64)
                bb = np.array(b, dtype=np.float64).view(np.uint64)
                idx = np.nonzero(aa != bb)[0].tolist()
            except Exception:
                idx = [i for i in range(len(a)) if describe(a[i]) != describe(b[i])]
        else:
            idx = [i for i in range(len(a)) if describe(a[i]) != describe(b[i])]
        if not idx:
            continue
        rec.add('differences:%s:%s-vs-%s%s' % (label, base, other, S.under), len(idx))
        for i in idx[:CAP]:
            if not S.want((label, base, other), False):
                break
            x = words_or_vals[i]
            wit = {'what': label, 'input': x.hex() if isinstance(x, float) else x, base: describe(a[i])[1], other: describe(b[i])[1],
                   'build': S.under or 'plain'}
            rec.violation(monitor, 'implementations-differ', '%s: %s -> %s but %s -> %s on %r' % (
                label, base, describe(a[i])[1], other, describe(b[i])[1], x), wit)


# ======================================================================================================================
# entry point tables
# ======================================================================================================================
def load_lis():
    from TotalDepth.LIS.core import RepCode, pRepCode, cRepCode, cpRepCode
    return RepCode, pRepCode, cRepCode, cpRepCode


def struct_form(pRepCode, code):
    fmt = getattr(pRepCode, 'STRUCT_RC_%d' % code).format
    if isinstance(fmt, bytes):
        fmt = fmt.decode()
    return 'signed' if fmt[-1] in 'bhil' else 'unsigned'


class UnpackFile:
    """What the LIS record readers hand to readRepCode / readNN: an object whose unpack(struct) consumes struct.size bytes
    at the current position (LIS File.FileRead.unpack).  Written here from that one-line contract."""
    __slots__ = ('b', 'pos')

    def __init__(self, b):
        self.b, self.pos = b, 0

    def unpack(self, st):
        chunk = self.b[self.pos:self.pos + st.size]
        self.pos += len(chunk)
        return st.unpack(chunk)


def lis_file_entries(code, mods, S):
    """(f) the file-object readers and the despatch functions."""
    RepCode, p, c, cp = mods
    size = lis_size_of(code)
    rec = S.rec

    def via(fn, label):
        def run(b):
            f = UnpackFile(b + SENTINEL)
            v = fn(f)
            if f.pos != size and S.want((code, label, 'consumption'), False):
                rec.violation('consumption', 'fixed-length', 'LIS%d %s consumed %d bytes, the standard says %d' % (code, label, f.pos, size),
                              {'code': 'LIS%d' % code, 'entry': label, 'bytes': b.hex(), 'consumed': f.pos, 'expected': size})
            return v
        return run
    sf = struct_form(p, code)
    ents = [('RepCode.fromRepCode', 'unsigned' if code in (49, 50, 68, 70) else sf, lambda w, _c=code: RepCode.fromRepCode(_c, w)),
            ('RepCode.readRepCode(file)', 'bytes', via(lambda f, _c=code: RepCode.readRepCode(_c, f), 'readRepCode')),
            ('RepCode.read%d(file)' % code, 'bytes', via(getattr(RepCode, 'read%d' % code), 'RepCode.read%d' % code)),
            ('pRepCode.read%d(file)' % code, 'bytes', via(getattr(p, 'read%d' % code), 'pRepCode.read%d' % code))]
    return ents


def lis_size_of(code):
    return {49: 2, 50: 4, 56: 1, 66: 1, 68: 4, 70: 4, 73: 4, 77: 1, 79: 2}[code]


def lis_entries(code, mods, which=('user', 'p', 'c', 'cp')):
    RepCode, p, c, cp = mods
    sf = struct_form(p, code)
    fn = 'from%d' % code
    ents = []
    if 'user' in which:
        ents.append(('RepCode.readBytes', 'bytes', lambda b, _rb=RepCode.readBytes, _c=code: _rb(_c, b)))
        ents.append(('RepCode.' + fn, 'unsigned' if code in (49, 50, 68, 70) else sf, getattr(RepCode, fn)))
    if 'p' in which:
        ents.append(('pRepCode.' + fn, sf, getattr(p, fn)))
    if 'c' in which:
        ents.append(('cRepCode.' + fn, sf, getattr(c, fn)))
    if 'cp' in which and code == 68:
        ents.append(('cpRepCode.' + fn, sf, cp.from68))
    return ents


SENTINEL = b'\xa5\x5a\xc3'


def rp_entries(name, RP, LogicalData, S):
    """code_read and the named function, each on bytes followed by sentinel bytes; consumption is checked inline."""
    rc = RP.REP_CODE_STR_TO_INT[name]
    size = S_SIZE[name]
    rec = S.rec

    def make(fn, label):
        def run(b):
            ld = LogicalData(b + SENTINEL)
            v = fn(ld)
            if ld.index != size:
                if S.want((name, label, 'consumption'), False):
                    rec.violation('consumption', 'fixed-length', '%s %s consumed %d bytes, the standard says %d' % (name, label, ld.index, size),
                                  {'code': name, 'entry': label, 'bytes': b.hex(), 'consumed': ld.index, 'expected': size})
            return v
        return run
    named = getattr(RP, name)
    return [('RP66V1.RepCode.code_read', 'bytes', make(lambda ld: RP.code_read(rc, ld), 'code_read')),
            ('RP66V1.RepCode.' + name, 'bytes', make(named, name))]


S_SIZE = {'FSINGL': 4, 'ISINGL': 4, 'VSINGL': 4, 'FDOUBL': 8, 'SSHORT': 1, 'SNORM': 2, 'SLONG': 4, 'USHORT': 1, 'UNORM': 2,
          'ULONG': 4, 'STATUS': 1}


# ======================================================================================================================
# word generators
# ======================================================================================================================
def stratified_words(code, np):
    """All sign x exponent-field values crossed with the boundary mantissa set (deterministic, whole family)."""
    if code == 68 or code == 'FSINGL':
        man = np.array(boundary_set(23), dtype=np.uint64)
        hi = np.arange(512, dtype=np.uint64) << np.uint64(23)
        return (hi[:, None] | man[None, :]).ravel()
    if code == 50:
        man = np.array(boundary_set(16), dtype=np.uint64)
        hi = np.arange(65536, dtype=np.uint64) << np.uint64(16)
        return (hi[:, None] | man[None, :]).ravel()
    if code == 70:
        lo = np.array(boundary_set(16), dtype=np.uint64)
        hi = np.arange(65536, dtype=np.uint64) << np.uint64(16)
        few = np.array([0, 1, 0x8000, 0xFFFF, 0x4000], dtype=np.uint64)
        a = (hi[:, None] | few[None, :]).ravel()
        hb = np.array(boundary_set(16), dtype=np.uint64) << np.uint64(16)
        b = (hb[:, None] | lo[None, :]).ravel()
        return np.unique(np.concatenate([a, b]))
    if code == 'ISINGL':
        man = np.array(boundary_set(24), dtype=np.uint64)
        hi = np.arange(256, dtype=np.uint64) << np.uint64(24)
        return (hi[:, None] | man[None, :]).ravel()
    if code == 'VSINGL':
        f = np.array(boundary_set(23), dtype=np.uint64)
        se = np.arange(512, dtype=np.uint64)
        s, e = se >> np.uint64(8), se & np.uint64(0xFF)
        b0 = ((e & np.uint64(1)) << np.uint64(7))[:, None] | (f >> np.uint64(16))[None, :]
        b1 = ((s << np.uint64(7)) | (e >> np.uint64(1)))[:, None] | np.zeros_like(f)[None, :]
        b2 = np.zeros_like(se)[:, None] | (f & np.uint64(0xFF))[None, :]
        b3 = np.zeros_like(se)[:, None] | ((f >> np.uint64(8)) & np.uint64(0xFF))[None, :]
        return ((b0 << np.uint64(24)) | (b1 << np.uint64(16)) | (b2 << np.uint64(8)) | b3).ravel()
    if code == 'FDOUBL':
        man = np.array(boundary_set(52), dtype=np.uint64)
        hi = np.arange(4096, dtype=np.uint64) << np.uint64(52)
        return (hi[:, None] | man[None, :]).ravel()
    if code in (73, 'SLONG', 'ULONG'):
        b = boundary_set(32)
        b += [x ^ 0xFFFFFFFF for x in b]
        return np.unique(np.array(b, dtype=np.uint64))
    raise KeyError(code)


def random_words(code, S, n, np, salt):
    """n distinct words for this shard: images of a shard-private index range under a bijective mixer."""
    h = int.from_bytes(hashlib.blake2b(('%s:%s:%s' % (S.seed_key, code_name(code), salt)).encode(), digest_size=8).digest(), 'big')
    start = S.part * n
    idx = np.arange(start, start + n, dtype=np.uint64)
    if code == 'FDOUBL':
        return fmix64(idx ^ np.uint64(h), np)
    return fmix32((idx ^ np.uint64(h & 0xFFFFFFFF)).astype(np.uint32), np).astype(np.uint64)


def lis50_band_words(S, n, np):
    """n distinct code 50 words with exponent in [-1100, 1100]: i -> (a*i + b) mod N is a bijection of Z_N (a coprime to N)."""
    N = 2201 * 65536            # = 31 * 71 * 2^16
    h = int.from_bytes(hashlib.blake2b(('%s:lis50band' % S.seed_key).encode(), digest_size=8).digest(), 'big')
    a = 1000003                 # prime, not 2, 31 or 71
    idx = np.arange(S.part * n, S.part * n + n, dtype=np.uint64)
    j = (idx * np.uint64(a) + np.uint64(h % N)) % np.uint64(N)
    e = (j >> np.uint64(16)).astype(np.int64) - 1100
    m = j & np.uint64(0xFFFF)
    return ((e & 0xFFFF).astype(np.uint64) << np.uint64(16)) | m


# ======================================================================================================================
# legs
# ======================================================================================================================
def leg_selfcheck(S, rng, R):
    n, bad = R.self_check(rng, 1500)
    S.rec.mon('ref_selfcheck', n)
    for b in bad:
        S.rec.inconclusive_because('reference self-check failed: ' + b)


def run_fixed(S, code, words, entries, label, exhaustive, np, R, diff=None, count_nt=True):
    """Run words through entries in batches; record the enumerated sub-space."""
    rec = S.rec
    n = len(words)
    for a in range(0, n, BATCH):
        chunk = words[a:a + BATCH]
        res = check_batch(S, code, chunk, entries, np, R)
        if diff:
            differential(S, diff[0], diff[1], chunk.tolist(), res, diff[2], np, as_float=True)
    nz = int((words != 0).sum())
    rec.bulk_cases('%s %s' % (code_name(code), label), n, 0 if (S.under or not count_nt) else nz, exhaustive=exhaustive if not S.under else None,
                   sample={'code': code_name(code), 'word': hex(int(words[n // 2])), 'subspace': label} if n else None)


def leg_a_small(S, mods, RPmods, np, R):
    """(a) every 8 and 16 bit word; this shard takes words part, part+parts, ..."""
    RP, LogicalData = RPmods
    for code in (49, 79, 56, 66, 77):
        bits = 8 * R.LIS_SIZE[code]
        words = np.arange(S.part, 1 << bits, S.parts, dtype=np.uint64)
        run_fixed(S, code, words, lis_entries(code, mods) + lis_file_entries(code, mods, S), 'all 2^%d words' % bits, True, np, R)
    for name in ('SSHORT', 'USHORT', 'STATUS', 'SNORM', 'UNORM'):
        bits = 8 * S_SIZE[name]
        words = np.arange(S.part, 1 << bits, S.parts, dtype=np.uint64)
        run_fixed(S, name, words, rp_entries(name, RP, LogicalData, S), 'all 2^%d words' % bits, True, np, R)
    # all 1- and 2-byte UVARI (first byte 0x00..0xBF)
    bufs = [bytes([b]) for b in range(S.part, 128, S.parts)]
    bufs += [w.to_bytes(2, 'big') for w in range(0x8000 + S.part, 0xC000, S.parts)]
    n = 0
    for b in bufs:
        for nm in ('UVARI', 'ORIGIN'):
            check_var(S, nm, b + SENTINEL, 0, RP, LogicalData, R, record_case=False)
        n += 1
    S.rec.bulk_cases('UVARI all 1- and 2-byte forms', n, n - 1, exhaustive=True)


def leg_b_wide(S, mods, RPmods, np, R, n_random, codes=None, which=('user', 'p', 'c', 'cp')):
    """(b) 32/64 bit codes: stratified family (dealt to the shards) + distinct random words."""
    RP, LogicalData = RPmods if RPmods else (None, None)
    todo = codes or (50, 68, 70, 73, 'FSINGL', 'ISINGL', 'VSINGL', 'FDOUBL', 'SLONG', 'ULONG')
    for code in todo:
        if isinstance(code, int):
            ents = lis_entries(code, mods, which)
        else:
            ents = rp_entries(code, RP, LogicalData, S)
        diff = None
        if code == 68 and len([e for e in ents if e[0].endswith('from68')]) >= 2:
            diff = ('from68', 'differential_from68', [e[0] for e in ents if e[0].endswith('from68') and e[0] != 'RepCode.from68'])
            if len(diff[2]) < 2:
                diff = None
        fam = stratified_words(code, np)
        mine = fam[S.part::S.parts]
        label = 'all sign x exponent-field x boundary-mantissa words'
        if code == 50:
            # 97% of the family has no float64 value and cannot be asserted: keep all assertable words and 1/64 of the rest
            rep = R.np_lis50(mine)[1]
            e16 = ((mine >> 16) & 0xFFFF).astype(np.int64)
            e16 = np.where(e16 >= 0x8000, e16 - 0x10000, e16)
            in_band = rep & (e16 >= -1200)                          # has a float64 value (or just underflows)
            deep = rep & (e16 < -1200)                              # deep underflow: the value is zero
            extreme = deep & (e16 <= -32768 + 40)                   # the most negative exponents, all of them
            n_non = int((~rep).sum())
            S.rec.add('LIS50_stratified_words_without_float64_value_skipped', n_non - (n_non + 63) // 64)
            mine = np.concatenate([mine[in_band], mine[extreme], mine[deep & ~extreme][::24], mine[~rep][::64]])
            label = 'all exponent-field x boundary-mantissa words that have a float64 value (+1/64 of the others)'
        if S.under:
            mine = mine[::max(1, len(mine) // 4000)]
        run_fixed(S, code, mine, ents, label, True, np, R, diff)
        if isinstance(code, int) and 'user' in which:
            alt = lis_file_entries(code, mods, S)
            run_fixed(S, code, mine[::3], alt, label + ' (every third) through fromRepCode / readRepCode / readNN(file)', None, np, R, count_nt=False)
        if code == 'ISINGL' and not S.under:
            leg_bit(S, mine, RPmods, np, R)
        rnd = random_words(code, S, n_random, np, 'b')
        run_fixed(S, code, rnd, ents, 'scrambled-index random words', None, np, R, diff)
        if isinstance(code, int) and 'user' in which:
            run_fixed(S, code, rnd[:max(2048, len(rnd) // 8)], alt, 'scrambled-index random words through fromRepCode / readRepCode / readNN(file)', None, np, R, count_nt=False)
        if code == 50:
            # 97% of code 50 words have no float64 value; add distinct words whose exponent is in the float64 band
            run_fixed(S, code, lis50_band_words(S, n_random, np), ents, 'exponent in [-1100, 1100], affine-scrambled distinct words', None, np, R)
        if code == 'ISINGL' and not S.under:
            leg_bit(S, rnd, RPmods, np, R)
            leg_bit_encoder(S, rnd, np)


def leg_bit(S, words, RPmods, np, R):
    """ReadBIT.bytes_to_float against ISINGL (real code) and the IBM reference on the same words."""
    from TotalDepth.BIT import ReadBIT
    RP, LogicalData = RPmods
    rec = S.rec
    for a in range(0, len(words), BATCH):
        chunk = words[a:a + BATCH]
        bs = [x.to_bytes(4, 'big') for x in chunk.tolist()]
        got, _ = call_list(ReadBIT.bytes_to_float, bs)
        other, _ = call_list(lambda b: RP.ISINGL(LogicalData(b)), bs)
        res = {'ReadBIT.bytes_to_float': got, 'RP66V1.ISINGL': other}
        differential(S, 'IBM single', 'bit_vs_isingl', bs_hex(bs), res, ['ReadBIT.bytes_to_float', 'RP66V1.ISINGL'], np, as_float=True)
        check_batch(S, 'ISINGL', chunk, [('ReadBIT.bytes_to_float', 'bytes', ReadBIT.bytes_to_float)], np, R, tag='BIT(IBM single)')
        # longer input: only the first four bytes count
        if a == 0:
            for b in bs[:200]:
                rec.mon('bit_vs_isingl')
                try:
                    v = ReadBIT.bytes_to_float(b + SENTINEL)
                except Exception as e:  # noqa
                    v = Raised(e)
                if describe(v) != describe(got[bs.index(b)]):
                    if S.want(('BIT', 'longer'), False):
                        rec.violation('bit_vs_isingl', 'trailing-bytes', 'bytes_to_float(%s + trailing bytes) -> %s, without them %s' % (
                            b.hex(), describe(v)[1], describe(got[bs.index(b)])[1]), {'bytes': b.hex()})


def leg_bit_encoder(S, words, np):
    """ReadBIT.float_to_bytes, the IBM single (ISINGL / BIT) encoder, against the decoders: a decoded value encodes to an equivalent
    word (one that decodes to the same number), and a finite double inside the format's range comes back with the sign it had and
    less than 2^-20 of its magnitude lost (24 fraction bits of which the top hexadecimal digit may hold three leading zeros)."""
    import math
    import random
    from TotalDepth.BIT import ReadBIT
    rec = S.rec
    rng = random.Random(int(words[0]) if len(words) else 0)
    lo, hi = 16.0 ** -64, 16.0 ** 63
    n_words = n_doubles = 0
    for w in words[:4000].tolist():
        b = w.to_bytes(4, 'big')
        try:
            v = ReadBIT.bytes_to_float(b)
            back = ReadBIT.bytes_to_float(ReadBIT.float_to_bytes(v))
        except Exception as e:  # noqa
            if S.want(('BITenc', 'raised'), False):
                rec.violation('bit_encoder_inverts_decoder', 'raised', 'float_to_bytes(bytes_to_float(%s)) raised %s: %s' % (b.hex(), type(e).__name__, e), {'bytes': b.hex()}, exc=e)
            continue
        if v != 0 and not (lo <= abs(v) < hi):
            continue        # below the smallest normalised number the encoder clamps the exponent: outside "in range"
        n_words += 1
        if back != v and S.want(('BITenc', 'word'), False):
            rec.violation('bit_encoder_inverts_decoder', 'decoded-value', 'word %s decodes to %r, which encodes to %s = %r' % (
                b.hex(), v, ReadBIT.float_to_bytes(v).hex(), back), {'bytes': b.hex(), 'value': v, 'back': back})
    for _ in range(6000):
        k = rng.random()
        if k < 0.35:
            # just below / at / above a power of 16 and of 2: where a rounded fraction would carry out of its 24 bits
            x = rng.choice([-1.0, 1.0]) * 16.0 ** rng.randrange(-60, 60) * rng.choice([1.0, 2.0, 4.0, 8.0]) * (1 - rng.choice([0, 2 ** -53, 2 ** -40, 2 ** -30, 2 ** -25, 2 ** -24, 2 ** -23]))
        elif k < 0.7:
            x = rng.choice([-1.0, 1.0]) * math.ldexp(rng.random() + 0.5, rng.randrange(-250, 250))
        else:
            x = rng.uniform(-1e6, 1e6)
        if not (lo <= abs(x) < hi):
            continue
        try:
            b = ReadBIT.float_to_bytes(x)
            y = ReadBIT.bytes_to_float(b)
        except Exception as e:  # noqa
            if S.want(('BITenc', 'raised'), False):
                rec.violation('bit_encoder_inverts_decoder', 'raised', 'float_to_bytes(%r) raised %s: %s' % (x, type(e).__name__, e), {'value': x}, exc=e)
            continue
        n_doubles += 1
        if (len(b) != 4 or abs(y - x) >= abs(x) * 2.0 ** -20 or (y < 0) != (x < 0)) and S.want(('BITenc', 'double'), False):
            rec.violation('bit_encoder_inverts_decoder', 'in-range-double', 'float_to_bytes(%r) = %s which decodes to %r (relative loss %.3g, IBM single keeps it below 2^-20)' % (
                x, b.hex(), y, abs(y - x) / abs(x)), {'value': x, 'bytes': b.hex(), 'back': y})
    rec.mon('bit_encoder_inverts_decoder', n_words + n_doubles)
    rec.add('bit_encoder_words', n_words)
    rec.add('bit_encoder_doubles', n_doubles)


def bs_hex(bs):
    return [b.hex() for b in bs]


# ---- (c) variable length -------------------------------------------------------------------------------------------
def td_value(name, v):
    """TotalDepth's result object -> plain data comparable with the reference parser's value."""
    if name in ('UVARI', 'ORIGIN'):
        return v if type(v) is int else ('not-int', repr(v))
    if name in ('IDENT', 'ASCII', 'UNITS'):
        return bytes(v) if isinstance(v, (bytes, bytearray)) else ('not-bytes', repr(v))
    if name == 'OBNAME':
        return (v.O, v.C, bytes(v.I))
    if name == 'OBJREF':
        return (bytes(v.T), (v.N.O, v.N.C, bytes(v.N.I)))
    if name == 'DTIME':
        return {'year': v.year, 'tz': v.tz, 'month': v.month, 'day': v.day, 'hour': v.hour, 'minute': v.minute,
                'second': v.second, 'millisecond': v.millisecond}
    raise KeyError(name)


LEN_HELPERS = {'UVARI': 'UVARI_len', 'IDENT': 'IDENT_len', 'OBNAME': 'OBNAME_len', 'ORIGIN': 'ORIGIN_len'}


def check_var(S, name, buf, pos, RP, LogicalData, R, record_case=True, classes=()):
    rec = S.rec
    try:
        parsed = R.PARSERS[name](buf, pos)
    except R.Truncated:
        parsed = None
    rc = R.RP_CODE[name]
    ld = LogicalData(buf)
    ld.seek(pos)
    use_code_read = (len(buf) + pos) & 1
    try:
        got = RP.code_read(rc, ld) if use_code_read else getattr(RP, name)(ld)
        exc = None
    except Exception as e:  # noqa
        got, exc = None, e
    wit = {'code': name, 'buffer': bytes(buf[:300]), 'buffer_len': len(buf), 'offset': pos, 'via': 'code_read' if use_code_read else name}
    if record_case:
        nontrivial = parsed is None or (parsed[1] - pos) > 1
        rec.case((name, bytes(buf), pos), nontrivial, classes=['var:%s:%s' % (name, c) for c in classes])
    rec.add('var_cases:%s' % name, 1)
    if parsed is None:
        rec.mon('truncated_must_raise')
        if exc is None and S.want((name, 'trunc'), False):
            rec.violation('truncated_must_raise', 'value-from-truncated-input', '%s returned %r from a buffer that ends inside the value' % (name, got),
                          dict(wit, returned=repr(got)[:200], index_after=ld.index))
        return
    value, newpos = parsed[0], parsed[1]
    flag = parsed[2] if len(parsed) > 2 else True       # canonical / chars permitted / fields valid
    rec.mon('consumption')
    if exc is not None:
        if S.want((name, 'raise'), False):
            rec.violation('consumption', 'raised-on-complete-value', '%s raised %s: %s on a complete value' % (name, type(exc).__name__, exc),
                          dict(wit, expected_consumed=newpos - pos), exc=exc)
        return
    if ld.index != newpos:
        if S.want((name, 'consumed'), False):
            rec.violation('consumption', 'bytes-consumed', '%s consumed %d bytes, the standard says %d' % (name, ld.index - pos, newpos - pos),
                          dict(wit, consumed=ld.index - pos, expected_consumed=newpos - pos))
    if flag:
        rec.mon('exact_reference')
        try:
            tv = td_value(name, got)
        except Exception as e:  # noqa
            tv = ('unreadable', repr(e))
        if tv != value:
            if S.want((name, 'value'), False):
                rec.violation('exact_reference', 'variable-length-value', '%s decoded %r, the standard defines %r' % (name, tv, value),
                              dict(wit, observed=repr(tv)[:300], expected=repr(value)[:300]))
    else:
        rec.add('var_value_not_asserted:%s' % name, 1)
    helper = LEN_HELPERS.get(name)
    if helper:
        rec.mon('len_helpers')
        as_bytearray = bool(len(buf) & 2)          # the helpers are documented for bytes and bytearray alike
        S.rec.add('len_helper_calls:%s' % ('bytearray' if as_bytearray else 'bytes'), 1)
        try:
            ln = getattr(RP, helper)(bytearray(buf) if as_bytearray else buf, pos)
        except Exception as e:  # noqa
            ln = Raised(e)
        if ln != newpos - pos:
            if S.want((name, 'len'), False):
                rec.violation('len_helpers', 'length-helper', '%s(buffer, %d) -> %s but decoding consumes %d' % (helper, pos, describe(ln)[1] if isinstance(ln, Raised) else ln, newpos - pos),
                              dict(wit, helper=helper, helper_result=describe(ln)[1] if isinstance(ln, Raised) else ln, expected_consumed=newpos - pos))


def gen_var(name, rng, R):
    """-> (value bytes, class).  A mixture of well-formed, boundary, non-canonical and raw random encodings."""
    def rb(n, alphabet=None):
        if alphabet:
            return bytes(rng.choice(alphabet) for _ in range(n))
        return rng.randbytes(n)

    def uv():
        k = rng.random()
        if k < 0.3:
            v = rng.choice([0, 1, 127, 128, 129, 255, 256, 16383, 16384, 16385, (1 << 30) - 1, (1 << 30) - 2, 1 << 29])
        elif k < 0.6:
            v = rng.randrange(0, 1 << rng.choice([7, 14, 30]))
        else:
            v = rng.randrange(0, 1 << 30)
        widths = [w for w, lim in ((1, 1 << 7), (2, 1 << 14), (4, 1 << 30)) if v < lim]
        w = widths[0] if rng.random() < 0.75 else rng.choice(widths)
        return R.enc_uvari(v, w), ('canonical' if w == widths[0] else 'non-canonical')

    def ident_len():
        return rng.choice([0, 0, 1, 2, 5, 8, 31, 127, 128, 254, 255, rng.randrange(0, 256)])

    k = rng.random()
    if k < 0.12:
        return rb(rng.choice([0, 1, 2, 3, 5, 9, 17, 40])), 'raw-random'
    if name in ('UVARI', 'ORIGIN'):
        b, c = uv()
        return b, c
    if name == 'IDENT':
        return R.enc_ident(rb(ident_len())), 'well-formed'
    if name == 'UNITS':
        if rng.random() < 0.8:
            return R.enc_ident(rb(ident_len(), sorted(R.UNITS_CHARS))), 'permitted-chars'
        return R.enc_ident(rb(ident_len())), 'any-chars'
    if name == 'ASCII':
        n = rng.choice([0, 1, 2, 126, 127, 128, 129, 300, 16383, 16384, 16390, rng.randrange(0, 2000)])
        widths = [w for w, lim in ((1, 1 << 7), (2, 1 << 14), (4, 1 << 30)) if n < lim]
        w = widths[0] if rng.random() < 0.8 else rng.choice(widths)
        if rng.random() < 0.05:
            return R.enc_uvari(rng.choice([(1 << 30) - 1, 1 << 20, 70000]), 4) + rb(5), 'huge-declared-length'
        return R.enc_uvari(n, w) + rb(n), 'well-formed' if w == widths[0] else 'non-canonical-length'
    if name == 'OBNAME':
        o, c = uv()
        return o + bytes([rng.choice([0, 1, 255, rng.randrange(256)])]) + R.enc_ident(rb(ident_len())), c
    if name == 'OBJREF':
        o, c = uv()
        return R.enc_ident(rb(ident_len())) + o + bytes([rng.randrange(256)]) + R.enc_ident(rb(ident_len())), c
    if name == 'DTIME':
        if rng.random() < 0.7:
            y = rng.choice([1900, 1901, 1987, 1999, 2000, 2024, 2155, rng.randrange(1900, 2156)])
            mo = rng.randrange(1, 13)
            import calendar
            d = rng.choice([1, calendar.monthrange(y, mo)[1], rng.randrange(1, calendar.monthrange(y, mo)[1] + 1)])
            return R.enc_dtime(y, rng.randrange(3), mo, d, rng.choice([0, 23, rng.randrange(24)]), rng.choice([0, 59, rng.randrange(60)]),
                               rng.choice([0, 59, rng.randrange(60)]), rng.choice([0, 999, 255, 256, rng.randrange(1000)])), 'valid-fields'
        return rb(8), 'any-fields'
    raise KeyError(name)


def leg_c_var(S, RPmods, rng, R, n):
    RP, LogicalData = RPmods
    for name in ('UVARI', 'IDENT', 'ASCII', 'UNITS', 'ORIGIN', 'OBNAME', 'OBJREF', 'DTIME'):
        for _ in range(n):
            body, cls = gen_var(name, rng, R)
            k = rng.random()
            if k < 0.15 and len(body) > 0:
                body = body[:rng.randrange(0, len(body))]          # truncated, nothing follows
                tail = b''
                cls += '+truncated'
            elif k < 0.25:
                tail = b''
            else:
                tail = bytes(rng.getrandbits(8) for _ in range(rng.choice([1, 3, 3, 8])))
            prefix = bytes(rng.getrandbits(8) for _ in range(rng.choice([0, 0, 1, 2, 7, 130])))
            check_var(S, name, prefix + body + tail, len(prefix), RP, LogicalData, R, classes=(cls,))
    # 4-byte UVARI: boundary + scrambled values (part of (b))
    import numpy as np
    vals = set(boundary_set(30))
    vals.update(int(x) & 0x3FFFFFFF for x in random_words(68, S, n * 4, np, 'uvari4').tolist())
    cnt = 0
    for v in sorted(vals):
        check_var(S, 'UVARI', (0xC0000000 | v).to_bytes(4, 'big') + SENTINEL, 0, RP, LogicalData, R, record_case=False)
        cnt += 1
    S.rec.bulk_cases('UVARI 4-byte forms: boundary + scrambled-index random values', cnt, cnt, exhaustive=None)


# ---- (d) encoders --------------------------------------------------------------------------------------------------
def encoder_values(S, rng, n, np, R):
    """Finite doubles: decoded code 68 words, log-uniform, powers of two +- 1 ulp, denormals, integers, range edges."""
    out = []
    # decoded values of stratified + random words
    fam = stratified_words(68, np)[S.part::S.parts]
    out.append(R.np_lis68(fam))
    out.append(R.np_lis68(random_words(68, S, n // 3, np, 'enc')))
    # powers of two and neighbours, all exponents (dealt to shards)
    es = np.arange(-1074 + S.part, 1024, S.parts)
    p = np.ldexp(1.0, es.astype(np.int32))
    out += [p, np.nextafter(p, np.inf), np.nextafter(p, -np.inf), -p, -np.nextafter(p, np.inf), -np.nextafter(p, -np.inf)]
    # log-uniform over all finite doubles and over the code 68 neighbourhood
    k = n // 3
    bitsarr = fmix64(np.arange(S.part * k, S.part * k + k, dtype=np.uint64) ^ np.uint64(rng.getrandbits(64)), np)
    expf = (bitsarr >> np.uint64(52)) & np.uint64(0x7FF)
    bitsarr = np.where(expf == np.uint64(0x7FF), bitsarr & ~np.uint64(1 << 62), bitsarr)
    out.append(bitsarr.view(np.float64))
    e = np.array([rng.randrange(-156, 132) for _ in range(k)], dtype=np.int32)
    m = np.array([rng.random() for _ in range(k)]) * 0.5 + 0.5
    sg = np.where(np.array([rng.getrandbits(1) for _ in range(k)]) == 1, -1.0, 1.0)
    out.append(np.ldexp(m, e) * sg)
    # sparse mantissas near every code 68 exponent
    e2 = np.arange(-156, 132)
    for frac in (0.5, 0.75, 1 - 2.0 ** -23, 1 - 2.0 ** -24, 1 - 2.0 ** -53, 0.5 + 2.0 ** -24, 0.5 + 2.0 ** -23, 0.5 + 2.0 ** -52):
        v = np.ldexp(frac, e2.astype(np.int32))
        out += [v, -v]
    ints = np.array([rng.randrange(-(1 << b), 1 << b) for b in range(1, 53) for _ in range(6)] + [0, 1, -1, 153, -153], dtype=np.float64)
    out.append(ints)
    den = np.array([5e-324, -5e-324, 2.2250738585072014e-308, -2.2250738585072014e-308, 1.7976931348623157e308, -1.7976931348623157e308, 0.0, -0.0])
    out.append(den)
    v = np.concatenate([np.asarray(a, dtype=np.float64) for a in out])
    v = v[np.isfinite(v)]
    v = np.unique(v.view(np.uint64)).view(np.float64)
    is68 = np.isin(v.view(np.uint64), np.concatenate([out[0], out[1]]).view(np.uint64))    # decoded code 68 words
    return v, is68


def leg_d_encoders(S, mods, rng, n, np, R, which=('user', 'p', 'c', 'cp')):
    RepCode, p, c, cp = mods
    rec = S.rec
    vals, vals_is68 = encoder_values(S, rng, n, np, R)
    impls = []
    if 'p' in which:
        impls.append(('pRepCode.to68', p.to68))
    if 'c' in which:
        impls.append(('cRepCode.to68', c.to68))
    if 'cp' in which:
        impls.append(('cpRepCode.to68', cp.to68))
    if 'user' in which:
        impls.append(('RepCode.to68', RepCode.to68))
    two127, twom128 = math.ldexp(1.0, 127), math.ldexp(1.0, -128)
    n_inrange = 0
    for a in range(0, len(vals), BATCH):
        chunk = vals[a:a + BATCH]
        vl = chunk.tolist()
        res = {}
        for name, fn in impls:
            res[name], _ = call_list(fn, vl)
            rec.add('calls:%s%s' % (name, S.under), len(vl))
        names = [nm for nm, _ in impls]
        differential(S, 'to68', 'differential_to68', vl, res, names, np, as_float=False)
        if 'user' in which:
            # user-facing bytes writer
            sub = vl[::8]
            wb, _ = call_list(lambda v: RepCode.writeBytes(v, 68), sub)
            exp = [struct.pack('>I', w) if type(w) is int and 0 <= w < 1 << 32 else None for w in res['RepCode.to68'][::8]]
            rec.mon('differential_to68', len(sub))
            for i, (x, y) in enumerate(zip(wb, exp)):
                if x != y and S.want(('writeBytes',), False):
                    rec.violation('differential_to68', 'writeBytes-vs-to68', 'writeBytes(%r, 68) -> %s but to68 -> %s' % (sub[i], describe(x)[1], y),
                                  {'input': sub[i].hex(), 'writeBytes': describe(x)[1], 'to68_packed': y})
        # equivalence and bound are judged with the reference decoder on each implementation's word
        absv = np.abs(chunk)
        inrange = (absv >= twom128) & (absv < two127)
        n_inrange += int(inrange.sum())
        # is v itself a code 68 value?  (then encode-decode must give v back)
        for name in names:
            ws = res[name]
            try:
                warr = np.array(ws, dtype=np.int64)
                okw = (warr >= 0) & (warr < (1 << 32))
            except Exception:
                warr, okw = None, None
            if warr is None or not bool(okw.all()):
                for i, w in enumerate(ws):
                    if not (type(w) is int and 0 <= w < 1 << 32) and S.want((name, 'word'), False):
                        rec.violation('encoder_bound', 'not-a-word', '%s(%r) -> %s, not a 32 bit word' % (name, vl[i], describe(w)[1]),
                                      {'impl': name, 'value': vl[i].hex(), 'result': describe(w)[1]})
                continue
            dec = R.np_lis68(warr.astype(np.uint64))
            rec.mon('encoder_bound', int(inrange.sum()))
            with np.errstate(over='ignore', invalid='ignore'):
                diff = np.abs(dec - chunk)      # exact when the two are within a factor of two; huge otherwise
            with np.errstate(over='ignore', invalid='ignore'):
                bad = inrange & ~(diff * 4194304.0 < absv)
            for i in np.nonzero(bad)[0][:CAP].tolist():
                x, d = Fraction(vl[i]), Fraction(float(dec[i]))
                if abs(d - x) * (1 << 22) < abs(x):
                    continue
                if S.want((name, 'bound'), False):
                    rec.violation('encoder_bound', 'relative-error', '%s(%r) = %#x decodes to %r: relative error %.3g >= 2^-22' % (
                        name, vl[i], int(warr[i]), float(dec[i]), float(abs(d - x) / abs(x))),
                        {'impl': name, 'value': vl[i].hex(), 'word': int(warr[i]), 'decoded': float(dec[i]).hex(), 'build': S.under or 'plain'})
            # v is itself the value of a code 68 word: its encoding must decode to v
            m68 = vals_is68[a:a + BATCH]
            rec.mon('encoder_equivalence', int(m68.sum()))
            for i in np.nonzero(m68 & ~(dec == chunk))[0][:CAP * 2].tolist():
                key = (name, 'equiv-v', 'min' if vl[i] == -two127 else 'other')
                if S.want(key, False):
                    rec.violation('encoder_equivalence', 'decode-encode-decode', '%s: code 68 value %r encodes to %#x which decodes to %r' % (
                        name, vl[i], int(warr[i]), float(dec[i])),
                        {'impl': name, 'value': vl[i].hex(), 'word': None, 'reencoded': int(warr[i]), 'redecoded': float(dec[i]).hex(),
                         'build': S.under or 'plain'})
            # idempotence: re-encode the decoded value of the produced word; it must decode to the same value
            dl = dec.tolist()
            fn = dict(impls)[name]
            ws2, _ = call_list(fn, dl)
            rec.mon('encoder_equivalence', len(dl))
            try:
                w2 = np.array(ws2, dtype=np.int64)
                dec2 = R.np_lis68((w2 & 0xFFFFFFFF).astype(np.uint64))
                bad2 = np.nonzero(~((dec2 == dec) & (w2 >= 0) & (w2 < (1 << 32))))[0].tolist()
            except Exception:
                bad2 = [i for i, w in enumerate(ws2) if not (type(w) is int and 0 <= w < 1 << 32 and R.lis68(w) == Fraction(dl[i]))]
                dec2 = None
            for i in bad2[:CAP * 2]:
                w2i = ws2[i]
                key = (name, 'equiv', 'min' if dl[i] == -two127 else 'other')
                if S.want(key, False):
                    rec.violation('encoder_equivalence', 'decode-encode-decode', '%s: code 68 value %r (word %#x) re-encodes to %s which decodes to %s' % (
                        name, dl[i], int(warr[i]), hex(w2i) if type(w2i) is int else describe(w2i)[1],
                        repr(float(dec2[i])) if dec2 is not None else '?'),
                        {'impl': name, 'value': dl[i].hex(), 'word': int(warr[i]), 'reencoded': w2i if type(w2i) is int else describe(w2i)[1],
                         'redecoded': float(dec2[i]).hex() if dec2 is not None else None, 'build': S.under or 'plain'})
        # Python ints that are exactly these doubles (and fit a C long) must encode like the double
        if a == 0:
            iv = [int(v) for v in vl if v == math.floor(v) and abs(v) < 2.0 ** 62][:3000]
            if iv:
                for name, fn in impls:
                    ri, _ = call_list(fn, iv)
                    rf, _ = call_list(fn, [float(x) for x in iv])
                    rec.mon('differential_to68', len(iv))
                    for i in range(len(iv)):
                        if describe(ri[i]) != describe(rf[i]) and S.want((name, 'int'), False):
                            rec.violation('differential_to68', 'int-vs-float', '%s(%d) -> %s but %s(%r) -> %s' % (
                                name, iv[i], describe(ri[i])[1], name, float(iv[i]), describe(rf[i])[1]), {'impl': name, 'input': iv[i]})
    nn = len(vals)
    rec.add('encoder_values%s' % S.under, nn)
    rec.add('encoder_values_in_range%s' % S.under, n_inrange)
    rec.bulk_cases('to68 finite doubles (decoded words, log-uniform, 2^k +- ulp, denormals, integers)', nn, 0 if S.under else nn - 1,
                   exhaustive=None, sample={'double': vals[nn // 3].item().hex()})


# ---- decode of user-facing path through from68(to68(from68(w))) with the real decoders ----------------------------
def leg_chain(S, mods, np, R, n):
    RepCode = mods[0]
    rec = S.rec
    words = np.concatenate([stratified_words(68, np)[S.part::S.parts], random_words(68, S, n, np, 'chain')])
    for a in range(0, len(words), BATCH):
        wl = words[a:a + BATCH].tolist()
        v1, _ = call_list(RepCode.from68, wl)
        w2, _ = call_list(RepCode.to68, v1)
        v2, _ = call_list(RepCode.from68, w2)
        rec.mon('encoder_equivalence', len(wl))
        if v1 == v2:
            continue
        for i in range(len(wl)):
            if describe(v1[i]) != describe(v2[i]) and not (v1[i] == v2[i] == 0):
                key = ('chain', 'min' if v1[i] == -math.ldexp(1.0, 127) else 'other')
                if S.want(key, False):
                    rec.violation('encoder_equivalence', 'decode-encode-decode', 'RepCode: from68(to68(from68(%#x))) = %s but from68(%#x) = %s' % (
                        wl[i], describe(v2[i])[1], wl[i], describe(v1[i])[1]),
                        {'impl': 'RepCode.from68/to68', 'value': v1[i].hex() if isinstance(v1[i], float) else describe(v1[i])[1], 'word': wl[i],
                         'reencoded': w2[i] if type(w2[i]) is int else describe(w2[i])[1],
                         'redecoded': v2[i].hex() if isinstance(v2[i], float) else describe(v2[i])[1]})


# ---- (f) integer writers, helpers, sequences ------------------------------------------------------------------------
def leg_int_writers(S, mods, np, R, n_random):
    """writeBytes(v, code) of every decoded value of the integer codes that have a writer gives back the word."""
    RepCode = mods[0]
    rec = S.rec
    for code, named in ((66, RepCode.writeBytes66), (79, RepCode.writeBytes79), (73, RepCode.writeBytes73)):
        size = R.LIS_SIZE[code]
        bits = 8 * size
        if code == 73:
            words = np.concatenate([stratified_words(73, np)[S.part::S.parts], random_words(73, S, n_random, np, 'w73')])
        else:
            words = np.arange(S.part, 1 << bits, S.parts, dtype=np.uint64)
        vals = R.np_twos(words, bits).tolist() if code != 66 else words.tolist()
        wl = words.tolist()
        want = [w.to_bytes(size, 'big') for w in wl]
        for label, fn in (('RepCode.writeBytes', lambda v, _c=code: RepCode.writeBytes(v, _c)), ('RepCode.writeBytes%d' % code, named)):
            got, _ = call_list(fn, vals)
            rec.mon('integer_writers', len(vals))
            rec.mon('encoder_equivalence', len(vals))
            rec.add('calls:%s' % label, len(vals))
            if got == want:
                continue
            for i in range(len(vals)):
                if got[i] != want[i] and S.want((code, label, 'writer'), False):
                    rec.violation('integer_writers', 'word', 'LIS%d %s(%d) -> %s, the word of that value is %s' % (code, label, vals[i], describe(got[i])[1] if not isinstance(got[i], bytes) else got[i].hex(), want[i].hex()),
                                  {'code': 'LIS%d' % code, 'entry': label, 'value': vals[i], 'observed': describe(got[i])[1] if not isinstance(got[i], bytes) else got[i].hex(), 'expected': want[i].hex()},
                                  exc=got[i].exc if isinstance(got[i], Raised) else None)
        # decode(encode(decode(w))) through the user-facing pair
        back, _ = call_list(lambda v, _c=code: RepCode.readBytes(_c, RepCode.writeBytes(v, _c)), vals)
        rec.mon('integer_writers', len(vals))
        for i in range(len(vals)):
            if not (type(back[i]) is int and back[i] == vals[i]) and S.want((code, 'chain'), False):
                rec.violation('integer_writers', 'decode-encode-decode', 'LIS%d readBytes(writeBytes(%d)) -> %s' % (code, vals[i], describe(back[i])[1]),
                              {'code': 'LIS%d' % code, 'value': vals[i], 'observed': describe(back[i])[1]})
        rec.bulk_cases('LIS%d integer writer on decoded values' % code, len(vals), 0, exhaustive=True if code != 73 else None)


def leg_helpers(S, mods, RPmods, R):
    """Byte-length helpers that are tables: wordLength, rep_code_fixed_length, is_fixed_length."""
    RepCode = mods[0]
    RP = RPmods[0]
    rec = S.rec
    for code in R.LIS_CODES:
        rec.mon('len_helpers')
        try:
            wl = RepCode.wordLength(code)
        except Exception as e:  # noqa
            wl = Raised(e)
        if wl != R.LIS_SIZE[code]:
            rec.violation('len_helpers', 'wordLength', 'wordLength(%d) = %s, decoding consumes %d' % (code, describe(wl)[1], R.LIS_SIZE[code]),
                          {'code': code, 'observed': describe(wl)[1], 'expected': R.LIS_SIZE[code]})
    fixed = dict(S_SIZE, DTIME=8)
    for name, rc in sorted(R.RP_CODE.items()):
        rec.mon('len_helpers', 2)
        try:
            isf = RP.is_fixed_length(rc)
        except Exception as e:  # noqa
            isf = Raised(e)
        if isf is not (name in fixed):
            rec.violation('len_helpers', 'is_fixed_length', 'is_fixed_length(%d) [%s] = %s' % (rc, name, describe(isf)[1]), {'code': name, 'observed': describe(isf)[1], 'expected': name in fixed})
        try:
            ln = RP.rep_code_fixed_length(rc)
        except RP.ExceptionRepCode as e:
            ln = Raised(e)
        except Exception as e:  # noqa
            ln = Raised(e)
            rec.violation('len_helpers', 'rep_code_fixed_length-exception', 'rep_code_fixed_length(%d) [%s] raised %s' % (rc, name, type(e).__name__), {'code': name}, exc=e)
            continue
        if name in fixed:
            if ln != fixed[name]:
                rec.violation('len_helpers', 'rep_code_fixed_length', 'rep_code_fixed_length(%d) [%s] = %s, decoding consumes %d' % (rc, name, describe(ln)[1], fixed[name]),
                              {'code': name, 'observed': describe(ln)[1], 'expected': fixed[name]})
        elif not isinstance(ln, Raised):
            rec.violation('len_helpers', 'rep_code_fixed_length', 'rep_code_fixed_length(%d) [%s] = %r for a variable-length code' % (rc, name, ln), {'code': name, 'observed': repr(ln)})


def _same(a, b):
    """Equality of two decoded values that survives NaN and signed zeros."""
    return describe(a) == describe(b) if isinstance(a, float) or isinstance(b, float) else (type(a) is type(b) and a == b)


def leg_streams(S, mods, RPmods, rng, R, n_streams):
    """Values of mixed codes decoded one after the other from ONE LogicalData (RP66V1) / one file object (LIS): each must be
    what the same bytes give alone, and leave the position at the end of its own bytes."""
    RepCode = mods[0]
    RP, LogicalData = RPmods
    rec = S.rec
    fixed = sorted(S_SIZE)
    var = ('UVARI', 'IDENT', 'ASCII', 'UNITS', 'ORIGIN', 'OBNAME', 'OBJREF', 'DTIME')
    for si in range(n_streams):
        # ---- RP66V1
        items = []
        for _ in range(rng.randrange(2, 40)):
            if rng.random() < 0.55:
                name = rng.choice(fixed)
                body = rng.randbytes(S_SIZE[name])
                if name == 'VSINGL' and (body[1] & 0x80) and not (((body[1] & 0x7F) << 1) | (body[0] >> 7)):
                    body = bytes([body[0] | 0x80]) + body[1:]          # not the reserved operand
            else:
                name = rng.choice(var)
                body, cls = gen_var(name, rng, R)
                try:
                    if R.PARSERS[name](body, 0)[1] != len(body):
                        continue                                         # raw-random bytes that are not exactly one value
                except R.Truncated:
                    continue
            items.append((name, body))
        if len(items) < 2:
            continue
        buf = b''.join(b for _, b in items) + SENTINEL
        ld = LogicalData(buf)
        pos = 0
        rec.mon('sequential_stream', len(items))
        rec.case(('stream', buf), True, classes=['stream:rp66v1'], sample={'codes': [n for n, _ in items][:12]} if si == 0 else None)
        for k, (name, body) in enumerate(items):
            rc = R.RP_CODE[name]
            use_code_read = rng.random() < 0.5
            fn = (lambda d, _rc=rc: RP.code_read(_rc, d)) if use_code_read else getattr(RP, name)
            try:
                alone = fn(LogicalData(body + SENTINEL))
                got = fn(ld)
            except Exception as e:  # noqa
                if S.want(('stream', name, 'raise'), False):
                    rec.violation('sequential_stream', 'raised', '%s (value %d of a stream of %d) raised %s: %s' % (name, k, len(items), type(e).__name__, e),
                                  {'code': name, 'stream': buf[:400], 'offset': pos, 'codes': [n for n, _ in items][:40]}, exc=e)
                break
            pos += len(body)
            if ld.index != pos or not _same(td_plain(name, alone), td_plain(name, got)):
                if S.want(('stream', name), False):
                    rec.violation('sequential_stream', 'differs-from-isolated', '%s as value %d of a stream: decoded %r and left the position at %d; alone the bytes %s give %r, the value ends at %d' % (
                        name, k, td_plain(name, got), ld.index, body.hex()[:60], td_plain(name, alone), pos),
                        {'code': name, 'stream': buf[:400], 'offset': pos - len(body), 'value_bytes': body, 'codes': [n for n, _ in items][:40],
                         'observed': repr(td_plain(name, got))[:200], 'alone': repr(td_plain(name, alone))[:200], 'index_after': ld.index, 'expected_index': pos})
                break
        # ---- LIS: readRepCode on one file object
        litems = [(c, rng.randbytes(R.LIS_SIZE[c])) for c in (rng.choice(R.LIS_CODES) for _ in range(rng.randrange(2, 40)))]
        f = UnpackFile(b''.join(b for _, b in litems) + SENTINEL)
        pos = 0
        rec.mon('sequential_stream', len(litems))
        rec.case(('lis-stream', f.b), True, classes=['stream:lis'])
        for k, (code, body) in enumerate(litems):
            try:
                alone = RepCode.readBytes(code, body)
                got = RepCode.readRepCode(code, f)
            except Exception as e:  # noqa
                if S.want(('lis-stream', code, 'raise'), False):
                    rec.violation('sequential_stream', 'raised', 'LIS%d (value %d of a stream of %d) raised %s: %s' % (code, k, len(litems), type(e).__name__, e),
                                  {'code': 'LIS%d' % code, 'stream': f.b[:400], 'offset': pos}, exc=e)
                break
            pos += len(body)
            if f.pos != pos or not _same(alone, got):
                if S.want(('lis-stream', code), False):
                    rec.violation('sequential_stream', 'differs-from-isolated', 'LIS%d as value %d of a stream: readRepCode -> %r, position %d; readBytes of the same bytes %s -> %r, the value ends at %d' % (
                        code, k, got, f.pos, body.hex(), alone, pos), {'code': 'LIS%d' % code, 'stream': f.b[:400], 'offset': pos - len(body), 'observed': repr(got), 'alone': repr(alone)})
                break


def leg_same_bytes_other_code(S, mods, rng, R, n):
    """The same bytes decoded under one LIS code and then under another of the same size, through every bytes-level entry point:
    what a code makes of the bytes must not depend on which code looked at them before (compared with the word-level decoder
    fromNN, which takes no bytes)."""
    RepCode = mods[0]
    rec = S.rec
    by_size = {}
    for c in R.LIS_CODES:
        if hasattr(RepCode, 'from%d' % c) and hasattr(RepCode, 'readBytes%d' % c):
            by_size.setdefault(R.LIS_SIZE[c], []).append(c)
    groups = [cs for cs in by_size.values() if len(cs) >= 2]
    for _ in range(n):
        codes = rng.choice(groups)
        size = R.LIS_SIZE[codes[0]]
        body = rng.randbytes(size) if rng.random() < 0.7 else rng.choice([b'\x44\x4c\x80\x00', b'\x00\x99\x40\x00', b'\x80\x00\x00\x00', b'\xff\xff\xff\xff', b'\x00\x00\x00\x01'])[:size].ljust(size, b'\x00')
        word = int.from_bytes(body, 'big')
        order = rng.sample(codes, len(codes)) * 2
        rec.mon('same_bytes_other_code', len(order))
        rec.case(('same-bytes', body, tuple(order)), True, classes=['history:same-bytes-other-code'])
        for k, c in enumerate(order):
            try:
                want = getattr(RepCode, 'from%d' % c)(word)
            except Exception:  # noqa - words a code cannot decode are the business of the other legs
                continue
            for entry in ('readBytes', 'readBytes%d' % c):
                try:
                    got = RepCode.readBytes(c, body) if entry == 'readBytes' else getattr(RepCode, entry)(body)
                except Exception as e:  # noqa
                    got = e
                if isinstance(got, Exception) or not _same(want, got):
                    if S.want(('same-bytes', c, entry), False):
                        rec.violation('same_bytes_other_code', 'depends-on-history', 'LIS%d %s(%s) -> %r after the same bytes were decoded as %s; from%d(%#x) gives %r' % (
                            c, entry, body.hex(), got, ['LIS%d' % x for x in order[:k]] or 'nothing', c, word, want),
                            {'code': 'LIS%d' % c, 'entry': entry, 'bytes': body.hex(), 'decoded_before_as': order[:k], 'observed': repr(got), 'word_level': repr(want)})
                    break


def td_plain(name, v):
    """A decoded RP66V1 value as plain comparable data (fixed codes: the number itself)."""
    if name in S_SIZE:
        return v
    try:
        return td_value(name, v)
    except Exception as e:  # noqa
        return ('unreadable', repr(e))


# ======================================================================================================================
# (e) sanitizers
# ======================================================================================================================
def sweep_binary():
    """Compile native/c68_sweep.cpp + the tree's LISRepCode.cpp with ASan+UBSan; cached by source hash."""
    from tdv.core import env
    src = os.path.join(env.VERIF, 'native', 'c68_sweep.cpp')
    cpp = os.path.join(env.REPO, 'src', 'TotalDepth', 'LIS', 'core', 'src', 'cpp')
    with open(src, 'rb') as f:
        hh = hashlib.sha256(f.read()).hexdigest()[:12]
    out = os.path.join(env.BUILD, env.native_src_hash(), 'c68_sweep-' + hh)
    exe = os.path.join(out, 'c68_sweep')
    done = os.path.join(out, '.done')
    if os.path.exists(done):
        return exe
    os.makedirs(out, exist_ok=True)
    with open(os.path.join(out, '.lock'), 'w') as lk:
        fcntl.flock(lk, fcntl.LOCK_EX)
        if os.path.exists(done):
            return exe
        cmd = ['clang++', '-std=c++14', '-fsanitize=address,undefined', '-fsanitize-recover=all', '-fno-omit-frame-pointer', '-O1', '-g',
               '-I' + cpp, src, os.path.join(cpp, 'LISRepCode.cpp'), '-o', exe]
        r = subprocess.run(cmd, stdout=subprocess.PIPE, stderr=subprocess.STDOUT, text=True, timeout=300)
        if r.returncode != 0:
            raise RuntimeError('harness build failed: %s\n%s' % (' '.join(cmd), r.stdout[-3000:]))
        open(done, 'w').close()
    return exe


def extra_env(tier, tmp):
    """Runner hook (parent, once): pay the harness compile before the shards start."""
    try:
        sweep_binary()
    except Exception:
        pass            # the shard will retry and report
    return {}


RE_UB = re.compile(r'^(?P<file>/?[^\s:][^:\n]*):(?P<line>\d+):(?P<col>\d+): runtime error: (?P<msg>.*)$')
RE_ASAN = re.compile(r'ERROR: (?P<tool>AddressSanitizer|LeakSanitizer): (?P<kind>[\w-]+)')
RE_FRAME = re.compile(r'^\s+#(?P<n>\d+) 0x[0-9a-f]+ in (?P<func>.+?) (?P<file>/[^\s:]+):(?P<line>\d+)(?::\d+)?\s*$')
RE_FRAME_NOSRC = re.compile(r'^\s+#(?P<n>\d+) 0x[0-9a-f]+ in (?P<func>\S+)')


def parse_sanitizer_logs(paths):
    """-> list of report blocks {'tool','kind','message','file','line','function','frames'}."""
    blocks = []
    for p in paths:
        try:
            with open(p, 'r', errors='replace') as f:
                lines = f.read().splitlines()
        except OSError:
            continue
        cur = None
        for ln in lines:
            m = RE_UB.match(ln)
            if m:
                cur = {'tool': 'ubsan', 'message': m.group('msg'), 'file': m.group('file'), 'line': int(m.group('line')),
                       'function': '', 'frames': []}
                cur['kind'] = re.sub(r'-?\d[\d.]*(?:e[+-]?\d+)?', 'N', m.group('msg'))
                blocks.append(cur)
                continue
            m = RE_ASAN.search(ln)
            if m:
                cur = {'tool': 'asan', 'message': ln.strip()[:300], 'kind': m.group('kind'), 'file': '', 'line': 0, 'function': '', 'frames': []}
                blocks.append(cur)
                continue
            if cur is None:
                continue
            m = RE_FRAME.match(ln)
            if m:
                cur['frames'].append('%s %s:%s' % (m.group('func'), m.group('file'), m.group('line')))
                if m.group('n') == '0' and not cur['function']:
                    cur['function'] = m.group('func')
                if cur['tool'] == 'asan' and not cur['file'] and '/TotalDepth/' in m.group('file'):
                    cur['file'], cur['line'] = m.group('file'), int(m.group('line'))
                    cur['function'] = cur['function'] or m.group('func')
                continue
            m = RE_FRAME_NOSRC.match(ln)
            if m and m.group('n') == '0' and not cur['function']:
                cur['function'] = m.group('func')
            if ln.startswith('SUMMARY:'):
                cur = None
    return blocks


def source_text(path, line):
    try:
        with open(path, 'r', errors='replace') as f:
            for i, ln in enumerate(f, 1):
                if i == line:
                    return ln.strip()[:300]
    except OSError:
        pass
    return ''


def report_sanitizer_blocks(S, blocks, leg):
    """De-duplicate by (tool, kind, file:line); tree-source reports are violations, anything else is inconclusive."""
    from tdv.core import env
    rec = S.rec
    rec.add('sanitizer_report_blocks_raw:%s' % leg, len(blocks))
    seen = {}
    for b in blocks:
        key = '%s|%s|%s:%d' % (b['tool'], b['kind'], os.path.basename(b['file']), b['line'])
        seen.setdefault(key, [0, b])[0] += 1
    table = S.rec.extra.setdefault('sanitizer_reports', {})
    for key, (cnt, b) in sorted(seen.items()):
        table['%s [%s]' % (key, leg)] = table.get('%s [%s]' % (key, leg), 0) + cnt
        f = b['file']
        # debug info keeps the path of the tree the cached build was made from; identical native sources hash to the
        # same build directory whatever $VERIF_REPO is, so locate the file by its path below src/
        rel = f[f.index('/src/TotalDepth/') + 1:] if '/src/TotalDepth/' in f else None
        in_tree = rel is not None and os.path.exists(os.path.join(env.REPO, rel))
        generated = f.startswith(env.BUILD + os.sep) and os.path.basename(f).startswith(('cRepCode', 'cFrameSet'))
        if not (in_tree or generated):
            rec.inconclusive_because('sanitizer report outside the tree sources (%s): %s %s:%d %s' % (leg, b['tool'], f, b['line'], b['message'][:200]))
            continue
        here = os.path.join(env.REPO, rel) if in_tree else f
        wit = {'tool': b['tool'], 'kind': b['kind'], 'message': b['message'], 'file': rel if in_tree else f,
               'line': b['line'], 'function': b['function'], 'source_text': source_text(here, b['line']), 'leg': leg, 'blocks': cnt,
               'frames': b['frames'][:6]}
        rec.violation('sanitizer', '%s:%s' % (b['tool'], b['kind'][:60]), '%s in %s:%d (%s): %s' % (b['tool'], wit['file'], b['line'], b['function'], b['message'][:200]), wit)


def san_env(prefix):
    e = dict(os.environ)
    e['ASAN_OPTIONS'] = 'halt_on_error=0:detect_leaks=0:abort_on_error=0:log_path=%s' % prefix
    e['UBSAN_OPTIONS'] = 'halt_on_error=0:print_stacktrace=1:log_path=%s' % prefix
    return e


def start_harness(S, seed):
    """Popen the sweep for this shard's slice of the word space."""
    tmp = os.environ.get('VERIF_SHARD_TMP') or '.'
    exe = sweep_binary()
    span = (1 << 32) // S.parts
    lo, hi = S.part * span, (S.part + 1) * span
    stride = SWEEP_STRIDE[S.tier]
    off = (seed * 7 + S.part) % stride
    args = [exe, 'from68', str(lo + off), str(hi), str(stride)]
    windows = []
    if S.part == 0:
        for c in (0, 0x00800000, 0x3F800000, 0x40000000, 0x40800000, 0x7F800000, 0x80000000, 0x80800000, 0xBF800000, 0xC0000000, 0xFF800000, 1 << 32):
            windows.append((max(0, c - 300), min(1 << 32, c + 300)))
        for a, b in windows:
            args += ['from68', str(a), str(b), '1']
        args += ['from49']
    args += ['to68', str(N_TO68_NATIVE[S.tier]), str((seed << 8) + S.part + 1)]
    prefix = os.path.join(tmp, 'san-harness')
    p = subprocess.Popen(args, stdout=subprocess.PIPE, stderr=subprocess.PIPE, env=san_env(prefix), text=True)
    return {'p': p, 'prefix': prefix, 'args': args, 'stride': stride, 'lo': lo, 'hi': hi, 'windows': windows}


def finish_harness(S, h, R):
    rec = S.rec
    try:
        out, err = h['p'].communicate(timeout=900 if S.tier == 'thorough' else 200)
    except subprocess.TimeoutExpired:
        h['p'].kill()
        rec.inconclusive_because('sanitizer harness timed out')
        return
    if h['p'].returncode != 0:
        rec.inconclusive_because('sanitizer harness exit status %s: %s' % (h['p'].returncode, (err or '')[-500:]))
    total_words = 0
    n_from68_legs = 0
    for ln in out.splitlines():
        kv = dict(t.split('=', 1) for t in ln.split()[1:] if '=' in t)
        if ln.startswith('RESULT'):
            leg = kv['leg']
            n = int(kv['checked'])
            rec.add('native_sweep_checked:%s' % leg, n)
            if leg == 'from68':
                total_words += n
                n_from68_legs += 1
                if n_from68_legs == 1:          # the first from68 leg is this shard's slice of the word space
                    full = int(kv['stride']) == 1 and int(kv['lo']) == h['lo'] and int(kv['hi']) == h['hi']
                    rec.bulk_cases('LIS68 native sweep _from68 + _to68(_from68(w)) over the whole word space [ASan+UBSan], stride %d' % h['stride'],
                                   n, n if full else 0, exhaustive=True if full else None)
                else:
                    rec.bulk_cases('LIS68 native sweep boundary windows, stride 1 [ASan+UBSan]', n, 0, exhaustive=None)
            elif leg == 'from49':
                total_words += n
                rec.bulk_cases('LIS49 native _from49 all 2^16 words [ASan+UBSan]', n, 0, exhaustive=True)
            elif leg == 'to68':
                rec.add('native_sweep_to68_in_range', int(kv['inrange']))
                rec.add('native_sweep_to68_negative', int(kv['negative']))
                rec.bulk_cases('_to68 native finite doubles (splitmix stream) [ASan+UBSan]', n, 0, exhaustive=None)
                total_words += n
        elif ln.startswith('MISMATCH'):
            kind = kv.get('kind')
            if kind in ('from68', 'from49'):
                code = 68 if kind == 'from68' else 49
                word = int(kv['word'], 16)
                got = struct.unpack('<d', struct.pack('<Q', int(kv['got'], 16)))[0]
                x = R.lis_value(code, word)
                if S.want(('harness', kind), False):
                    rec.violation('exact_reference', 'value', 'LISRepCode.cpp _%s(%#x) -> %r, the standard defines %s' % (kind, word, got, x),
                                  {'code': 'LIS%d' % code, 'entry': 'LISRepCode.cpp:_' + kind, 'form': 'unsigned', 'word': word,
                                   'bytes': word.to_bytes(R.LIS_SIZE[code], 'big').hex(), 'observed': got.hex(), 'observed_kind': 'float',
                                   'expected': R.show_exact(x), 'build': 'harness-asan'})
            elif kind == 'roundtrip':
                val = struct.unpack('<d', struct.pack('<Q', int(kv['value'], 16)))[0]
                red = struct.unpack('<d', struct.pack('<Q', int(kv['redecoded'], 16)))[0]
                key = ('harness', 'equiv', 'min' if val == -math.ldexp(1.0, 127) else 'other')
                if S.want(key, False):
                    rec.violation('encoder_equivalence', 'decode-encode-decode', 'LISRepCode.cpp: value %r of word %s re-encodes to %s which decodes to %r' % (
                        val, kv['word'], kv['reencoded'], red),
                        {'impl': 'LISRepCode.cpp:_to68', 'value': val.hex(), 'word': int(kv['word'], 16), 'reencoded': int(kv['reencoded'], 16),
                         'redecoded': red.hex(), 'build': 'harness-asan'})
            elif kind in ('to68bound', 'to68sign'):
                val = struct.unpack('<d', struct.pack('<Q', int(kv['value'], 16)))[0]
                if S.want(('harness', kind), False):
                    rec.violation('encoder_bound', 'relative-error' if kind == 'to68bound' else 'sign', 'LISRepCode.cpp _to68(%r) = %s' % (val, kv['word']),
                                  {'impl': 'LISRepCode.cpp:_to68', 'value': val.hex(), 'word': int(kv['word'], 16), 'build': 'harness-asan'})
    rec.mon('sanitizer_harness_words', total_words)
    rec.mon('exact_reference', total_words)
    rec.mon('encoder_equivalence', total_words)
    logs = [os.path.join(os.path.dirname(h['prefix']), f) for f in os.listdir(os.path.dirname(h['prefix'])) if f.startswith(os.path.basename(h['prefix']) + '.')]
    blocks = parse_sanitizer_logs(logs)
    if err and 'runtime error' in err:
        rec.add('sanitizer_stderr_lines', err.count('runtime error'))
    report_sanitizer_blocks(S, blocks, 'harness c68_sweep')


def start_asan_child(S, seed):
    from tdv.core import env, native as nat
    tmp = os.environ.get('VERIF_SHARD_TMP') or '.'
    nat.build('asan')
    params = {'tier': S.tier, 'part': S.part, 'parts': S.parts, 'seed_key': S.seed_key, 'n': N_ASAN[S.tier], 'seed': seed}
    pp, op = os.path.join(tmp, 'asan-child.json'), os.path.join(tmp, 'asan-child.pickle')
    with open(pp, 'w') as f:
        json.dump(params, f)
    prefix = os.path.join(tmp, 'san-modules')
    e = san_env(prefix)
    e['LD_PRELOAD'] = nat.asan_runtime()
    e['PYTHONPATH'] = env.VERIF
    e['VERIF_REPO'] = env.REPO
    e['PYTHONHASHSEED'] = '0'
    p = subprocess.Popen([env.PY, '-m', 'tdv.props.c07', 'asan-child', pp, op], cwd=env.VERIF, env=e, stdout=subprocess.PIPE,
                         stderr=subprocess.STDOUT, text=True)
    return {'p': p, 'out': op, 'prefix': prefix}


def finish_asan_child(S, h):
    rec = S.rec
    try:
        out, _ = h['p'].communicate(timeout=600 if S.tier == 'thorough' else 250)
    except subprocess.TimeoutExpired:
        h['p'].kill()
        rec.inconclusive_because('sanitizer module child timed out')
        return
    d = os.path.dirname(h['prefix'])
    logs = [os.path.join(d, f) for f in os.listdir(d) if f.startswith(os.path.basename(h['prefix']) + '.')]
    blocks = parse_sanitizer_logs(logs)
    if os.path.exists(h['out']):
        with open(h['out'], 'rb') as f:
            dump = pickle.load(f)
        absorb(S, dump)
    else:
        if not any(b['tool'] == 'asan' for b in blocks):
            rec.inconclusive_because('sanitizer module child died rc=%s without a report: %s' % (h['p'].returncode, (out or '')[-800:]))
    report_sanitizer_blocks(S, blocks, 'extension modules (asan build, preloaded runtime)')


def absorb(S, dump):
    """Fold the child's Recorder dump into this shard's recorder (violations are re-classified here)."""
    rec = S.rec
    for k, v in dump['monitors'].items():
        rec.mon(k, v)
    for k, v in dump['extra'].items():
        if isinstance(v, (int, float)) and not isinstance(v, bool):
            rec.add(k, v)
        elif k not in rec.extra:
            rec.extra[k] = v
    for lab, n in dump['bulk'].items():
        rec.bulk_cases(lab + ' [asan build]', n, 0, exhaustive=None)
    for r in dump['inconclusive']:
        rec.inconclusive_because('[asan child] ' + r)
    vs = list(dump['unknown'])
    for lst in dump['known'].values():
        vs += lst
    for v in vs:
        rec.violation(v['monitor'], v['kind'], '[asan build] ' + v['msg'], v['witness'])
    extra_unknown = dump['unknown_count'] - len(dump['unknown'])
    if extra_unknown > 0:
        rec.add('asan_child_unrecorded_unknown_violations', extra_unknown)


def asan_child_main(params_path, out_path):
    """Runs inside an interpreter started with LD_PRELOAD=<asan runtime>; loads the ASan+UBSan build of the modules."""
    import logging
    import random
    logging.disable(logging.CRITICAL)
    from tdv.core import env, findings, native as nat
    from tdv.core.rec import Recorder
    env.bootstrap_repo()
    loaded = nat.preseed('asan')
    import numpy as np
    from tdv.ref import repcodes as R
    with open(params_path) as f:
        P = json.load(f)
    rec = Recorder(ID, findings.classify)
    S = State(rec, P['tier'], P['part'], P['parts'], P['seed_key'], under=' [asan]')
    mods = load_lis()
    assert '/asan/' in mods[2].__file__ and '/asan/' in mods[3].__file__, (mods[2].__file__, mods[3].__file__)
    rec.note('asan_child_modules', {k: v for k, v in loaded.items()})
    rng = random.Random('%s:asan:%s' % (P['seed_key'], P['part']))
    # (a) small codes through cRepCode
    for code in (49, 79, 56, 66, 77):
        bits = 8 * R.LIS_SIZE[code]
        words = np.arange(S.part, 1 << bits, S.parts, dtype=np.uint64)
        run_fixed(S, code, words, lis_entries(code, mods, ('c',)), 'all 2^%d words' % bits, True, np, R)
    # (b) wide LIS codes through cRepCode and cpRepCode (+ pRepCode for the differential)
    leg_b_wide(S, mods, None, np, R, P['n'], codes=(50, 68, 70, 73), which=('p', 'c', 'cp'))
    # (d) encoders
    leg_d_encoders(S, mods, rng, P['n'], np, R, which=('p', 'c', 'cp'))
    # cFrameSet: executed for the sanitizer only (its semantics belong to C06)
    from TotalDepth.LIS.core import cFrameSet
    assert '/asan/' in cFrameSet.__file__
    ncalls = 0
    for _ in range(300):
        n = rng.choice([0, 1, 2, 3, 17, 200, rng.randrange(0, 400)])
        a = np.array([rng.choice([0.0, 1.0, -1.0, rng.random(), float('nan'), float('inf')]) for _ in range(n)], dtype=np.float64)
        for fn in (cFrameSet.dec, cFrameSet.eq, cFrameSet.inc, cFrameSet.decEqInc):
            fn(a)
            ncalls += 1
    rec.add('calls:cFrameSet.* [asan]', ncalls)
    nat_calls = sum(v for k, v in rec.extra.items() if k.startswith('calls:c') and isinstance(v, int))
    rec.mon('sanitizer_module_calls', nat_calls)
    d = rec.dump()
    with open(out_path, 'wb') as f:
        pickle.dump(d, f)


# ======================================================================================================================
# shard
# ======================================================================================================================
def run_shard(ctx, p):
    import logging
    logging.disable(logging.CRITICAL)
    import numpy as np
    from tdv.ref import repcodes as R
    rec, rng = ctx.rec, ctx.rng
    S = State(rec, ctx.tier, p['part'], p['parts'], '%s:%s' % (ctx.seed, ctx.tier))
    # sanitizer subprocesses first: they run while this process does the in-process legs
    harness = child = None
    try:
        harness = start_harness(S, ctx.seed)
    except Exception as e:  # noqa
        rec.inconclusive_because('cannot start the sanitizer harness: %s: %s' % (type(e).__name__, str(e)[:1500]))
    try:
        child = start_asan_child(S, ctx.seed)
    except Exception as e:  # noqa
        rec.inconclusive_because('cannot start the sanitizer module child: %s: %s' % (type(e).__name__, str(e)[:1500]))
    try:
        mods = load_lis()
        from TotalDepth.RP66V1.core import RepCode as RP
        from TotalDepth.RP66V1.core.File import LogicalData
        RPmods = (RP, LogicalData)
        rec.note('word_convention_from_STRUCT_RC', {str(c): struct_form(mods[1], c) for c in R.LIS_CODES})
        rec.note('overlay', {'RepCode.from68': getattr(mods[0].from68, '__module__', None) or repr(mods[0].from68),
                             'RepCode.to68': getattr(mods[0].to68, '__module__', None) or repr(mods[0].to68),
                             'RepCode.from50': getattr(mods[0].from50, '__module__', None) or repr(mods[0].from50)})
        for code in R.LIS_CODES:
            rec.mon('consumption')
            if mods[0].lisSize(code) != R.LIS_SIZE[code]:
                rec.violation('consumption', 'lisSize', 'lisSize(%d) = %r, the standard says %d' % (code, mods[0].lisSize(code), R.LIS_SIZE[code]),
                              {'code': code, 'observed': mods[0].lisSize(code), 'expected': R.LIS_SIZE[code]})
        leg_selfcheck(S, ctx.sub_rng('selfcheck'), R)
        leg_a_small(S, mods, RPmods, np, R)
        leg_b_wide(S, mods, RPmods, np, R, N_RANDOM[ctx.tier])
        leg_c_var(S, RPmods, ctx.sub_rng('var'), R, N_VAR[ctx.tier])
        leg_d_encoders(S, mods, ctx.sub_rng('enc'), N_ENC[ctx.tier], np, R)
        leg_chain(S, mods, np, R, N_RANDOM[ctx.tier] // 2)
        leg_int_writers(S, mods, np, R, N_RANDOM[ctx.tier] // 4)
        leg_helpers(S, mods, RPmods, R)
        leg_streams(S, mods, RPmods, ctx.sub_rng('streams'), R, 150 if ctx.tier == 'quick' else 4000)
        leg_same_bytes_other_code(S, mods, ctx.sub_rng('same-bytes'), R, 400 if ctx.tier == 'quick' else 20000)
    finally:
        if harness:
            finish_harness(S, harness, R)
        if child:
            finish_asan_child(S, child)


def post_run(tier, tmpdir, dumps):
    table = {}
    for d in dumps:
        for k, v in (d.get('extra', {}).get('sanitizer_reports') or {}).items():
            table[k] = table.get(k, 0) + v
    dedup = {}
    for k, v in table.items():
        dedup.setdefault(k.split(' [')[0], 0)
        dedup[k.split(' [')[0]] += v
    return {'extra': {'sanitizer_distinct_report_sites': len(dedup), 'sanitizer_report_sites': dedup,
                      'sanitizer_report_sites_by_leg': table,
                      'ran_under_sanitizer': ['native/c68_sweep.cpp + tree LISRepCode.cpp (clang++ -fsanitize=address,undefined -O1 -g): _from68, _to68, _from49',
                                              'asan variant of cRepCode (all from*, to68), cpRepCode (from68, to68), cFrameSet (dec/eq/inc/decEqInc) in a child interpreter with libclang_rt.asan preloaded']}}


if __name__ == '__main__':
    if len(sys.argv) == 4 and sys.argv[1] == 'asan-child':
        asan_child_main(sys.argv[2], sys.argv[3])
    else:
        sys.exit('usage: python -m tdv.props.c07 asan-child <params.json> <out.pickle>')
