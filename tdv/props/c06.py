"""C06 LIS log pass frame sets are exact; any sub-selection is a sub-matrix."""
import hashlib
import math

from tdv.core.findings import classifier

ID = 'C06'
TITLE = 'LIS log pass frame sets are exact; any sub-selection is a sub-matrix'
NATIVE = 'plain'
NEEDS = ('icontract',)
RULE = ('Files come from the independent encoder tdv.gen.lis: optional reel/tape headers, 1..2 logical files each with a file '
        'header, 0..3 tables, a data format specification (1..8 channels of codes 49,50,56,66,68,70,73,77,79 with 1..4 samples and '
        '1..3 bursts, 4 % dipmeter channels of codes 130 / 234, explicit or implied X, up/down/neither, type 0 or 1 data), data records following a frames-per-record '
        'pattern (equal, short last, random, mixed; sometimes a table or a record without internal format between data records; '
        'sometimes gaps in the recorded X; 2 % long log passes with up to 656 frames in a record or up to 160 records), sometimes a '
        'second specification + data of the same data type in one logical file, records without internal format of 16 types incl. '
        'header-only records and logical EOF marks, trailers; physical layout = maximum physical record length (payload capacity from 1 '
        'byte) x trailer options x TIF none/little/big-endian.  Code words are random bit patterns (code 50 with exponent field 0..1023).  '
        'A case is one setFrameSet call of a load history (slice(start,stop,step) inside [0,total], channel list or None; the full load '
        'also with default arguments); the loads of a file with several log passes run log pass after log pass or interleaved; the '
        'channel list is a fresh list or one list object kept per log pass (refilled, or passed again as the reader left it); a third of '
        'the files are loaded through two reader objects in turn; a fifth are indexed again after the loads; '
        'distinct by (file digest, log pass, slice, channel list, position in the history); non-trivial = implied X and step > 1 and '
        'the selection crosses a data record boundary, or a channel subset that is not a prefix of the channel list.')
ASSUMPTIONS = [
    'slice objects with None or negative members and step < 1 are outside the documented argument domain of setFrameSet and are not generated',
    'an empty channel list with an implied X axis is not generated (nothing would be read, the X of a frame is then undefined)',
    'code 50 words are generated with a non-negative exponent below 1024 only (negative exponents are finding F5 of C07; larger ones exceed a double)',
    'implied X values are compared with a relative tolerance of 1e-9 (the reader accumulates spacing in floating point and converts units); '
    'recorded values and explicit X values are compared exactly',
    'a second data format specification of the same data type inside one logical file starts a new log pass: the data records after it belong to it',
    'records without interpreted internal format (types 42, 47, 65, 85, 86, 95..97, 100..102, 224..234) and logical EOF marks (137, after a file trailer) may '
    'stand anywhere a table may; they are not headers, trailers or tables and are not compared in the index',
    'the expected value of every code word is computed by the harness decoder in tdv.gen.lis (exact dyadic rationals), not by TotalDepth',
    'last X value is asserted only for log passes with at least two data records whose X values are evenly spaced',
    'physical record checksums are written but their value is not part of the property',
]
MECHANISMS = [
    ('TotalDepth.LIS.core.Rle', 'RLEType01.tellLrForFrame'),
    ('TotalDepth.LIS.core.Rle', 'RLEItemType01.tellLrForFrame'),
    ('TotalDepth.LIS.core.Type01Plan', 'FrameSetPlan.genEvents'),
    ('TotalDepth.LIS.core.LogPass', 'LogPass._genFrameSetEvents'),
    ('TotalDepth.LIS.core.LogPass', 'LogPass.setFrameSet'),
    ('TotalDepth.LIS.core.FrameSet', 'FrameSet.setFrameBytes'),
    ('TotalDepth.LIS.core.FileIndexer', 'FileIndex.__init__'),
    ('TotalDepth.LIS.core.FileIndexer', 'IndexLogPass.add'),
]
REQUIRED_MONITORS = ['index_model', 'index_again_after_loads', 'logpass_model', 'frame_values', 'implied_x', 'explicit_x', 'value_access', 'value_generators',
                     'submatrix_vs_full', 'read_containment', 'contract:RLEType01.tellLrForFrame',
                     'contract:FrameSet.__init__', 'contract:FrameSet.setFrameBytes:pre', 'contract:FrameSet.setIndirectX']
MIN_NONTRIVIAL = {'quick': 400, 'thorough': 10000}
FILES = {'quick': 150, 'thorough': 4000}        # per shard
NSHARDS = 16
TIMEOUT_S = {'quick': 300, 'thorough': 3000}
XTOL = 1e-9
PROP_TYPES = (128, 129, 130, 131, 132, 133, 32, 34, 39, 64)
# widening knobs of tdv.gen.lis.random_file (its defaults are kept for the other checks that use the generator)
PROFILE = {
    'neg70_p': 0.5,                  # negative code 70 words raised (F18/F20); repaired, so no longer a minority
    'long_p': 0.02,                  # log passes with hundreds of frames per record / a hundred records
    'misc_types': [232, 234, 224, 225, 227, 85, 86, 42, 47, 65, 95, 96, 97, 100, 101, 102],
    'misc_between_p': 0.04,
    'eof_marker_p': 0.1,
    'sequential_p': 0.06,
    'tiny_cap_p': 0.03,
    'dipmeter_p': 0.04,              # dipmeter channels (codes 130 / 234): 80 / 90 unsigned bytes per frame
}


def plan(tier, seed):
    return [{'files': FILES[tier], 'part': i} for i in range(NSHARDS)]


# ------------------------------------------------------------------------------------------------ known findings
def _close(a, b, scale):
    return abs(a - b) <= XTOL * scale


@classifier('c06_implied_x_stepped_boundary')
def _f15(v):
    """F15: implied X, step > 1: at a record boundary where the first wanted frame is not the first frame of the record the
    reader extrapolates from the X of the previous loaded frame by the frame offset inside the new record, instead of from
    the X recorded in the new record.  Recompute exactly that and compare with what was observed."""
    if v['monitor'] != 'implied_x' or v['kind'] != 'x-mismatch':
        return False
    w = v['witness']
    if not w.get('indirect') or not w.get('frames_equal') or w['step'] <= 1:
        return False
    sp, step = w['spacing'], w['step']
    obs, exp, rof, xrec = w['observed_x'], w['expected_x'], w['record_of'], w['x_records']
    if not (len(obs) == len(exp) == len(rof)):
        return False
    scale = w['scale']
    sim = []
    for j, (r, off) in enumerate(rof):
        if j == 0:
            x = xrec[str(r)] + off * sp
        elif rof[j - 1][0] != r:
            x = xrec[str(r)] if off == 0 else sim[j - 1] + off * sp
        else:
            x = sim[j - 1] + step * sp
        sim.append(x)
    if not all(_close(a, b, scale) for a, b in zip(sim, obs)):
        return False
    return any(not _close(a, b, scale) for a, b in zip(sim, exp))


@classifier('c06_code70_negative_overflow')
def _f18(v):
    """F18: a code 70 word with the sign bit set is unpacked as a signed int and handed to the Cython from70(unsigned int)."""
    if v['monitor'] != 'frame_values' or v['kind'] != 'load-exception':
        return False
    w = v['witness']
    return (v.get('exc_type') == 'OverflowError' and "can't convert negative value to unsigned int" in v['msg']
            and bool(w.get('negative_code70_in_selection')))


# ------------------------------------------------------------------------------------------------ helpers
def _describe(fm, lp, lpi):
    return {'layout': fm.layout.describe(), 'logpass': lpi, 'indirect': lp.indirect, 'x_rc': lp.x_rc,
            'updown': lp.updown, 'frames_per_record': lp.frames_per_record,
            'channels': [c.describe() for c in lp.channels],
            'x_units': lp.x_units.decode('latin-1'), 'spacing_units': lp.spacing_units.decode('latin-1'),
            'spacing': str(lp.spacing), 'record_gaps': lp.record_gaps}


def _file_witness(fm, data):
    w = {'layout': fm.layout.describe(), 'records': [(r['kind'], r['type'], r['start'], r['end']) for r in fm.records][:60]}
    if len(data) <= 3000:
        w['file'] = data
    return w


def choose_slice(rng, total):
    k = rng.random()
    if k < 0.03:
        a = rng.randrange(0, total + 1)
        return a, a, rng.randrange(1, 4)
    if k < 0.15:
        return 0, total, rng.choice([1, 1, 2, 3])
    a = rng.randrange(0, total)
    b = rng.randrange(a + 1, total + 1) if rng.random() < 0.6 else total
    s = rng.choice([1, 1, 2, 2, 3, 3, 4, 5, 6, 7, 8, 9, 11, 13, max(1, total // 2), total + 1])
    return a, b, s


def choose_channels(rng, nch, indirect):
    k = rng.random()
    if k < 0.25:
        return None
    if k < 0.3 and not indirect:
        return []
    if k < 0.45:
        return list(range(rng.randrange(1, nch + 1)))            # a prefix
    n = rng.randrange(1, nch + 1)
    chl = rng.sample(range(nch), n)
    if rng.random() < 0.7:
        chl.sort()
    if rng.random() < 0.1:
        chl.append(rng.choice(chl))                               # duplicates are removed by the reader
    return chl


class Budget:
    def __init__(self):
        self.n = {}

    def ok(self, kind, cap=20):
        self.n[kind] = self.n.get(kind, 0) + 1
        return self.n[kind] <= cap


# ------------------------------------------------------------------------------------------------ the shard
def run_shard(ctx, p):
    import numpy as np
    from TotalDepth.LIS.core import File, FileIndexer
    from tdv.gen import lis
    from tdv.mon import contracts
    from tdv.mon.tap import TapFile
    contracts.install_lis_frameset_contracts()
    rec = ctx.rec
    budget = Budget()

    def viol(monitor, kind, msg, witness, exc=None):
        # known findings never use up the budget of a kind; only unclassified violations do
        rec.add('violations_seen:%s/%s' % (monitor, kind))
        if budget.n.get((monitor, kind), 0) < 20:
            if rec.violation(monitor, kind, msg, witness, exc=exc) is None:
                budget.ok((monitor, kind))

    def index_entries(idx):
        return [(o.tell, o.lrType, getattr(o, 'name', None)) for o in idx.genAll() if o.lrType in PROP_TYPES]

    for fi_no in range(p['files']):
        rng = ctx.sub_rng('file', fi_no)
        data, fm = lis.random_file(rng, concurrent_p=0.12, profile=PROFILE)
        digest = hashlib.blake2b(data, digest_size=8).hexdigest()
        rec.add('files')
        rec.add('file_bytes', len(data))
        rec.cls('layout-tif-%s' % fm.layout.tif)
        rec.cls('layout-multi-pr' if fm.layout.capacity < max(r['len'] for r in fm.records) else 'layout-single-pr')
        if fm.layout.capacity < 4:
            rec.cls('layout-capacity-1-to-3')
        for r in fm.records:
            if r['kind'] == 'misc':
                rec.cls('record-without-format-type-%d' % r['type'])
                if r['len'] == 2:
                    rec.cls('record-of-header-only')
        tap = TapFile(data, name='<c06-%d>' % fi_no)
        keep_going = rng.random() < 0.5
        # ---- index
        rec.mon('index_model')
        try:
            fobj = File.FileRead(tap, 'c06-file', keepGoing=keep_going)
            idx = FileIndexer.FileIndex(fobj)
        except Exception as e:  # noqa
            viol('index_model', 'exception', 'indexing raised %s: %s' % (type(e).__name__, e),
                 dict(_file_witness(fm, data), keep_going=keep_going), exc=e)
            continue
        got = index_entries(idx)
        exp = [(s, ty, name) for s, ty, name, kind in fm.index if ty in PROP_TYPES]
        rec.add('index_entries', len(exp))
        if got != exp:
            bad = next((i for i, (a, b) in enumerate(zip(got, exp)) if a != b), min(len(got), len(exp)))
            viol('index_model', 'entries', 'index differs from the file at entry %d: got %r expected %r (%d vs %d entries)' % (
                bad, got[bad:bad + 1], exp[bad:bad + 1], len(got), len(exp)),
                dict(_file_witness(fm, data), got=got[:60], expected=exp[:60]))
        lps = list(idx.genLogPasses())
        if len(lps) != len(fm.logpasses):
            viol('logpass_model', 'count', '%d log passes found, %d written' % (len(lps), len(fm.logpasses)), _file_witness(fm, data))
            continue
        # ---- every log pass: summary against the model, then its load history is drawn
        states = []
        for lpi, (ilp, lp) in enumerate(zip(lps, fm.logpasses)):
            rec.mon('logpass_model')
            real = ilp.logPass
            desc = _describe(fm, lp, lpi)
            rec.cls('x-implied' if lp.indirect else 'x-explicit')
            rec.cls('direction-%s' % {1: 'up', 255: 'down', 0: 'none'}[lp.updown])
            if getattr(lp, 'sequential', False):
                rec.cls('logpass-second-specification-in-logical-file')
            if getattr(lp, 'concurrent', False):
                rec.cls('logpass-concurrent')
            if getattr(lp, 'long_pass', False):
                rec.cls('logpass-long')
            nrec = len(lp.frames_per_record)
            rec.maxi('max_frames_in_a_record', max(lp.frames_per_record or [0]))
            rec.maxi('max_records_in_a_logpass', nrec)
            rec.maxi('max_frames_in_a_logpass', lp.total)
            rec.cls('records-%s' % ('0' if nrec == 0 else '1' if nrec == 1 else 'short-last' if lp.frames_per_record[-1] < lp.frames_per_record[0]
                                   and len(set(lp.frames_per_record[:-1])) == 1 else 'equal' if len(set(lp.frames_per_record)) == 1 else 'mixed'))
            for c in lp.channels:
                rec.cls('rc-%d' % c.rc)
                if c.nvalues > 1:
                    rec.cls('multi-valued-channel')
            try:
                tf = real.totalFrames
                # a log pass without data records has no X axis: nothing more is stated about it (xAxisLastVal raises there)
                x_first = real.xAxisFirstVal if tf else None
                x_last = real.xAxisLastVal if tf and lp.evenly_spaced and nrec >= 2 else None
            except Exception as e:  # noqa
                viol('logpass_model', 'exception', 'log pass summary raised %s: %s' % (type(e).__name__, e), desc, exc=e)
                continue
            if ilp.tell != lp.dfsr_pos:
                viol('logpass_model', 'position', 'log pass at 0x%x, DFSR written at 0x%x' % (ilp.tell, lp.dfsr_pos), desc)
            if tf != lp.total:
                viol('logpass_model', 'frame-count', 'totalFrames=%r, %d frames written' % (tf, lp.total), desc)
                continue
            if lp.total == 0:
                rec.cls('no-frames')
                continue
            scale = max(1.0, abs(float(lp.x[0])), abs(float(lp.x[-1])), abs(float(lp.spacing)) * (lp.total + 40))
            if x_first != float(lp.x[0]):
                viol('logpass_model', 'first-x', 'first X %r, written %r' % (x_first, float(lp.x[0])), desc)
            if lp.evenly_spaced and nrec >= 2:
                rec.mon('last_x')
                if x_last is None or not _close(x_last, float(lp.x[-1]), scale):
                    viol('logpass_model', 'last-x', 'last X %r, written %r' % (x_last, float(lp.x[-1])), dict(desc, x0=float(lp.x[0])))
            st = {'lpi': lpi, 'lp': lp, 'real': real, 'desc': desc, 'scale': scale, 'nch': len(lp.channels),
                  'M': np.array(lp.matrix, dtype='float64').reshape(lp.total, lp.ncols), 'X': [float(x) for x in lp.x],
                  'full': None, 'partials': [], 'shared': [], 'done': []}
            rec_of = []
            for r, (s, e, f0, n) in enumerate(lp.extents):
                rec_of.extend((r, k) for k in range(n))
            st['rec_of'] = rec_of
            hist_len = rng.randrange(1, 7) if not getattr(lp, 'long_pass', False) else rng.randrange(1, 4)
            full_at = rng.randrange(0, hist_len + 1)
            history = []
            for h in range(hist_len + 1):
                if h == full_at:
                    a, b, s, chl = 0, lp.total, 1, None
                else:
                    a, b, s = choose_slice(rng, lp.total)
                    chl = choose_channels(rng, st['nch'], lp.indirect)
                history.append((a, b, s, chl))
            st['history'] = history
            rec.add('histories')
            rec.maxi('max_history_len', len(history))
            states.append(st)
        # ---- the order of the loads: log pass after log pass, or (half of the files with several log passes) interleaved, each
        # log pass keeping its own order: a load on one log pass must not depend on what was loaded from another in between
        queues = [[(st, h) for h in range(len(st['history']))] for st in states]
        loads = []
        if len(queues) > 1 and rng.random() < 0.5:
            rec.cls('file-with-interleaved-loads-on-several-log-passes')
            while any(queues):
                q = rng.choice([q for q in queues if q])
                loads.append(q.pop(0))
        else:
            for q in queues:
                loads.extend(q)
        # a second reader object on the same file (same file id): the index belongs to the file, not to one reader object
        fobj2 = None
        if loads and rng.random() < 0.3:
            try:
                fobj2 = File.FileRead(tap, 'c06-file', keepGoing=keep_going)
                rec.cls('file-loaded-through-two-reader-objects')
            except Exception as e:  # noqa
                viol('index_model', 'exception', 'a second FileRead on the file raised %s: %s' % (type(e).__name__, e), _file_witness(fm, data), exc=e)
        last_lpi = None
        for st, h in loads:
            lp, real, desc, scale, nch, M, X, rec_of = st['lp'], st['real'], st['desc'], st['scale'], st['nch'], st['M'], st['X'], st['rec_of']
            history, lpi = st['history'], st['lpi']
            a, b, s, chl = history[h]
            # the channel list argument: a fresh list, or one list object the caller keeps for this log pass and refills (the
            # reader appends the X channel to the list it is given), or that object passed again as it was left
            arg = None if chl is None else list(chl)
            if chl is not None and rng.random() < 0.5:
                shared = st['shared']
                if shared and rng.random() < 0.25 and (0 in shared or lp.indirect):
                    chl = list(shared)
                    history[h] = (a, b, s, chl)
                    rec.cls('channel-list-object-passed-again-unchanged')
                else:
                    shared[:] = chl
                    rec.cls('channel-list-object-refilled')
                arg = shared
            sel = list(range(a, b, s))
            chans = list(range(nch)) if chl is None else sorted(set(chl) | (set() if lp.indirect else {0}))
            cols = [lp.col_start[c] + j for c in chans for j in range(lp.channels[c].nvalues)]
            recs_needed = sorted(set(rec_of[f][0] for f in sel))
            crosses = len(recs_needed) > 1
            nontrivial = (lp.indirect and s > 1 and crosses and len(sel) > 1) or (chl is not None and chans != list(range(len(chans))))
            classes = ['history-pos-%d' % min(h, 3)]
            if last_lpi is not None and last_lpi != lpi and st['done']:
                classes.append('load-after-a-load-on-another-log-pass')
            last_lpi = lpi
            if lp.indirect and s > 1 and crosses:
                classes.append('implied-x-stepped-crossing')
            if chl is not None and chans != list(range(len(chans))):
                classes.append('non-prefix-subset')
            if chans and chans[-1] != nch - 1:
                classes.append('last-channel-unselected')
            if not sel:
                classes.append('empty-slice')
            rec.case(('load', digest, lpi, h, a, b, s, chl), nontrivial, classes=classes,
                     sample={'file_bytes': len(data), 'layout': fm.layout.describe(), 'frames_per_record': lp.frames_per_record[:40],
                             'implied_x': lp.indirect, 'slice': [a, b, s], 'channels': chl,
                             'codes': [c.rc for c in lp.channels]} if nontrivial else None)
            w0 = dict(desc, slice=[a, b, s], channel_list=chl, history=[list(x[:3]) + [x[3]] for x in history[:h + 1]],
                      keep_going=keep_going, loads_in_file_order=[[q['lpi'], k] for q, k in loads][:40])
            fo = fobj2 if fobj2 is not None and rng.random() < 0.5 else fobj
            default_args = (a, b, s, chl) == (0, lp.total, 1, None) and rng.random() < 0.5
            if default_args:
                rec.cls('full-load-with-default-arguments')
            tap.mark()
            nb0 = tap.bytes_read
            rec.mon('frame_values')
            st['done'].append(h)
            try:
                if default_args:
                    real.setFrameSet(fo)
                else:
                    real.setFrameSet(fo, slice(a, b, s), arg)
                fs = real.frameSet
                frames = fs.frames
                xs = [float(fs.xAxisValue(i)) for i in range(len(sel))] if cols else []
            except Exception as e:  # noqa
                neg70 = any(lp.channels[c].rc == 70 and any(M[f, lp.col_start[c] + j] < 0 for f in sel for j in range(lp.channels[c].nvalues))
                            for c in chans)
                viol('frame_values', 'load-exception', 'setFrameSet(%r, %r) raised %s: %s' % (slice(a, b, s), chl, type(e).__name__, e),
                     dict(w0, negative_code70_in_selection=neg70), exc=e)
                if neg70:
                    rec.cls('load-with-negative-code70')
                # a failed load leaves the file object mid-record; the next load seeks anyway
                continue
            rec.add('loads')
            rec.add('bytes_read_in_loads', tap.bytes_read - nb0)
            rec.add('frames_loaded', len(sel))
            # shape and values
            expM = M[np.ix_(sel, cols)] if sel and cols else np.empty((len(sel), len(cols)))
            frames_equal = frames.shape == expM.shape and bool(np.array_equal(frames, expM))
            if frames.shape != expM.shape:
                viol('frame_values', 'shape', 'frames shape %r, requested sub-matrix is %r' % (frames.shape, expM.shape), w0)
            elif not frames_equal:
                bad = np.argwhere(frames != expM)[:6]
                viol('frame_values', 'value', 'value differs at (frame, column) %s: got %r, recorded %r' % (
                    bad[0].tolist(), frames[tuple(bad[0])], expM[tuple(bad[0])]),
                    dict(w0, mismatches=[{'frame': sel[i], 'row': int(i), 'column': int(j), 'got': float(frames[i, j]), 'recorded': float(expM[i, j])}
                                         for i, j in bad]))
            if frames_equal:
                st['partials'].append((h, sel, cols, frames.copy(), xs))
                if (a, b, s, chl) == (0, lp.total, 1, None):
                    st['full'] = (frames.copy(), xs)
            # X axis
            if sel and cols:
                expX = [X[f] for f in sel]
                if lp.indirect:
                    rec.mon('implied_x')
                    if not all(_close(g, e, scale) for g, e in zip(xs, expX)):
                        k = next(i for i, (g, e) in enumerate(zip(xs, expX)) if not _close(g, e, scale))
                        # the witness holds at most 400 rows (the recorder's cap): a window that starts at the last row before the
                        # first mismatch that is the first selected row of its record and still has the expected X (row 0 otherwise)
                        j0 = 0
                        if len(sel) > 400:
                            for j in range(k - 1, 0, -1):
                                if rec_of[sel[j - 1]][0] != rec_of[sel[j]][0] and _close(xs[j], expX[j], scale):
                                    j0 = j
                                    break
                        win = slice(j0, j0 + 400)
                        viol('implied_x', 'x-mismatch', 'implied X of frame %d (row %d) is %r, expected %r = X of its record + offset x spacing' % (
                            sel[k], k, xs[k], expX[k]),
                            dict(w0, indirect=True, frames_equal=frames_equal, step=s, spacing=float(lp.spacing), scale=scale,
                                 witness_rows_from=j0, observed_x=xs[win], expected_x=expX[win], record_of=[list(rec_of[f]) for f in sel[win]],
                                 x_records={str(r): float(lp.x_records[r]) for r in recs_needed}))
                        st['partials'] = [q for q in st['partials'] if q[0] != h]
                else:
                    rec.mon('explicit_x')
                    if xs != expX:
                        k = next(i for i, (g, e) in enumerate(zip(xs, expX)) if g != e)
                        viol('explicit_x', 'x-mismatch', 'X of frame %d is %r, recorded %r' % (sel[k], xs[k], expX[k]),
                             dict(w0, observed_x=xs[:400], expected_x=expX[:400]))
            # random access by (frame, channel, sample, burst)
            if frames_equal and sel and cols:
                rec.mon('value_access')
                for _ in range(4):
                    i = rng.randrange(len(sel))
                    c = rng.choice(chans)
                    ch = lp.channels[c]
                    if ch.dipmeter:
                        continue        # the (sub-channel, sample) addressing of dipmeter values is not modelled; the matrix is compared
                    sa, bu = rng.randrange(ch.samples), rng.randrange(ch.bursts)
                    want = M[sel[i], lp.col_start[c] + sa * ch.bursts + bu]
                    try:
                        gotv = fs.value(i, c, 0, sa, bu)
                    except Exception as e:  # noqa
                        viol('value_access', 'exception', 'value(%d,%d,0,%d,%d) raised %s' % (i, c, sa, bu, type(e).__name__), w0, exc=e)
                        break
                    if gotv != want:
                        viol('value_access', 'value', 'value(frame %d, channel %d, sample %d, burst %d) = %r, recorded %r' % (
                            sel[i], c, sa, bu, gotv, want), dict(w0, frame=sel[i], channel=c, sample=sa, burst=bu))
            # the consumers' views of the loaded frame set (what the plotting and listing code reads): for a channel of ordinary
            # (not dipmeter) values genChScValues yields every value frame by frame in sample/burst order, frameView / frame_channel_
            # sub_channel_values are the columns of the channel, frame(i) is the row, and for a single-valued channel
            # genChScPoints pairs each value with the X of its frame
            if frames_equal and sel and cols:
                rec.mon('value_generators')
                c = rng.choice(chans)
                ch = lp.channels[c]
                if not ch.dipmeter:
                    c0, nv = lp.col_start[c], ch.nvalues
                    try:
                        want = [float(M[f, c0 + j]) for f in sel for j in range(nv)]
                        gotg = [float(v) for v in fs.genChScValues(c, 0)]
                        view = np.asarray(fs.frameView(c, 0))
                        i = rng.randrange(len(sel))
                        one = np.asarray(fs.frame_channel_sub_channel_values(i, c, 0)).ravel().tolist()
                        row = np.asarray(fs.frame(i)).ravel().tolist()
                        pts = [(float(x), float(v)) for x, v in fs.genChScPoints(c, 0)] if nv == 1 else None
                    except Exception as e:  # noqa
                        viol('value_generators', 'exception', 'reading channel %d through the generators / views raised %s: %s' % (c, type(e).__name__, e),
                             dict(w0, channel=c), exc=e)
                    else:
                        rec.add('values_through_generators', len(gotg))
                        wantv = [[float(M[f, c0 + j]) for j in range(nv)] for f in sel]
                        if gotg != want:
                            k = next((q for q, (g, e_) in enumerate(zip(gotg, want)) if g != e_), min(len(gotg), len(want)))
                            viol('value_generators', 'genChScValues', 'genChScValues(channel %d) yields %d values for %d x %d recorded; first difference at %d: %r, recorded %r' % (
                                c, len(gotg), len(sel), nv, k, gotg[k] if k < len(gotg) else None, want[k] if k < len(want) else None), dict(w0, channel=c, position=k))
                        elif view.reshape(len(sel), -1).tolist() != wantv:
                            viol('value_generators', 'frameView', 'frameView(channel %d, 0) is not the channel\'s columns of the selected frames' % c, dict(w0, channel=c))
                        elif one != wantv[i]:
                            viol('value_generators', 'frame_channel_sub_channel_values', 'frame_channel_sub_channel_values(%d, %d, 0) = %r, recorded %r' % (i, c, one[:8], wantv[i][:8]),
                                 dict(w0, channel=c, row=i))
                        elif row != [float(v) for v in expM[i].tolist()]:
                            viol('value_generators', 'frame', 'frame(%d) is not row %d of the requested sub-matrix' % (i, i), dict(w0, row=i))
                        elif pts is not None and [v for x, v in pts] != want:
                            viol('value_generators', 'genChScPoints-values', 'genChScPoints(channel %d) values differ from the recorded ones' % c, dict(w0, channel=c))
                        elif pts is not None and len(xs) == len(pts) and not all(px == gx for (px, v), gx in zip(pts, xs)):
                            k = next(q for q, ((px, v), gx) in enumerate(zip(pts, xs)) if px != gx)
                            viol('value_generators', 'genChScPoints-x', 'genChScPoints(channel %d) pairs row %d with X %r, xAxisValue(%d) is %r' % (c, k, pts[k][0], k, xs[k]),
                                 dict(w0, channel=c, row=k))
            # read containment
            rec.mon('read_containment')
            allowed = [(lp.extents[r][0], lp.extents[r][1]) for r in recs_needed]
            outside = tap.outside(allowed)
            rec.add('reads_in_loads', len(tap.reads))
            if outside:
                viol('read_containment', 'outside', '%d reads outside the %d data records holding requested frames, first at 0x%x (%d bytes)' % (
                    len(outside), len(allowed), outside[0][0], outside[0][1]),
                    dict(w0, outside=outside[:20], allowed=allowed[:40], extents=[list(e) for e in lp.extents][:40]))
        # ---- metamorphic: every partial load is the sub-matrix of the full load
        for st in states:
            if st['full'] is None:
                continue
            lp, desc, scale, history = st['lp'], st['desc'], st['scale'], st['history']
            F, FX = st['full']
            for h, sel, cols, fr, xs in st['partials']:
                rec.mon('submatrix_vs_full')
                sub = F[np.ix_(sel, cols)] if sel and cols else np.empty((len(sel), len(cols)))
                okx = True
                if sel and cols:
                    if lp.indirect:
                        okx = all(_close(g, FX[f], scale) for g, f in zip(xs, sel))
                    else:
                        okx = xs == [FX[f] for f in sel]
                if sub.shape != fr.shape or not np.array_equal(sub, fr) or not okx:
                    a, b, s, chl = history[h]
                    viol('submatrix_vs_full', 'differs', 'load %d slice(%d,%d,%d) channels %r is not the sub-matrix of the full load (X ok: %s)' % (
                        h, a, b, s, chl, okx), dict(desc, slice=[a, b, s], channel_list=chl))
        # ---- indexing once more after the loads (a fifth of the files): same entries, same log passes
        if rng.random() < 0.2:
            rec.mon('index_again_after_loads')
            try:
                idx2 = FileIndexer.FileIndex(fobj2 if fobj2 is not None else fobj)
                got2 = index_entries(idx2)
                totals2 = [(o.tell, o.logPass.totalFrames) for o in idx2.genLogPasses()]
            except Exception as e:  # noqa
                viol('index_model', 'exception', 'indexing again after the loads raised %s: %s' % (type(e).__name__, e),
                     dict(_file_witness(fm, data), keep_going=keep_going), exc=e)
            else:
                want2 = [(lp.dfsr_pos, lp.total) for lp in fm.logpasses]
                if got2 != exp or totals2 != want2:
                    viol('index_model', 'entries-second-index', 'a second index of the same file differs from the file: %d entries (%d expected), log passes %r expected %r' % (
                        len(got2), len(exp), totals2[:6], want2[:6]), dict(_file_witness(fm, data), got=got2[:60], expected=exp[:60]))
        # ---- contracts
        for name, msg in contracts.drain():
            viol('contract:' + name, 'breach', msg, dict(_file_witness(fm, data), contract=name, message=msg))
    for name, cnt in contracts.COUNTS.items():
        rec.mon('contract:' + name, cnt)


LEVEL_TEXT = ('Generated LIS files from an independent encoder are indexed and loaded by the real code through load histories; every '
              'loaded matrix, X vector, index entry and log-pass summary is compared with the generator model, partial loads with the '
              'full load, and every file read is checked against the byte extents of the needed data records; contracts on '
              'FrameSet / RLEType01 run on the live objects.  Sampled, not exhaustive.')
LEVEL_NOTE = ('Trusted: the harness encoder/decoder in tdv.gen.lis (cross-checked word by word against the standard examples), numpy '
              'array comparison, icontract.  Not covered: value(frame, channel, sub-channel, sample, burst) addressing inside dipmeter channels '
              '(their bytes are compared in frame order), slices with None/negative members, pad-modulo reading.')
TECHNIQUE = ('runtime monitoring: model-based differential against an independent LIS-79 encoder, metamorphic full-vs-partial loads, '
             'I/O tap for read containment, icontract invariants on the live classes, sys.monitoring mechanism counters')
