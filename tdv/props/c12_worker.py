"""C12 worker side: the picklable conversion wrapper handed to TotalDepth's batch functions, and the child-process
driver that performs one batch run and writes what it observed.

Nothing in the repository is edited: WriteLAS.convert_dir_or_file_to_las[_multiprocessing] take the per-file conversion
function as an argument, so the wrapper (delay injection, event log, audit hook) attaches at that boundary.
"""
import hashlib
import json
import os
import sys
import time

CONFIG = {'converter': None, 'log': None, 'delay_seed': 0, 'max_delay_ms': 30}
_real = {}
_audit_installed = False
_current_task = [None]


def _log(ev):
    ev['pid'] = os.getpid()
    ev['t'] = time.monotonic()
    with open(CONFIG['log'], 'a') as f:   # O_APPEND single small write: atomic enough for one line
        f.write(json.dumps(ev) + '\n')


def _audit(event, args):
    if event == 'open' and _current_task[0] is not None:
        path, mode = args[0], args[1]
        if isinstance(path, (str, bytes)) and isinstance(mode, str) and any(c in mode for c in 'wax+'):
            p = os.fsdecode(path)
            if CONFIG['log'] and os.path.abspath(p) != os.path.abspath(CONFIG['log']):
                _log({'ev': 'open_w', 'path': p, 'mode': mode, 'task': _current_task[0]})


def _delay(path, phase):
    h = hashlib.blake2b(('%s:%s:%s' % (CONFIG['delay_seed'], os.path.basename(path), phase)).encode(), digest_size=4).digest()
    ms = int.from_bytes(h, 'big') % (CONFIG['max_delay_ms'] + 1)
    if ms:
        time.sleep(ms / 1000.0)


def real_converter(name):
    if name not in _real:
        if name == 'rp66v1':
            from TotalDepth.RP66V1 import ToLAS
            _real[name] = ToLAS.single_rp66v1_file_to_las
        elif name == 'lis':
            from TotalDepth.LIS import ToLAS
            _real[name] = ToLAS.single_lis_file_to_las
        elif name == 'bit':
            from TotalDepth.BIT import ToLAS
            _real[name] = ToLAS.single_bit_path_to_las_path
        else:
            raise ValueError(name)
    return _real[name]


def wrapped_conversion(path_in, array_reduction, path_out, frame_slice, channels, field_width, float_format):
    """The file_conversion_function given to the batch drivers."""
    global _audit_installed
    if not _audit_installed:
        sys.addaudithook(_audit)
        _audit_installed = True
    _log({'ev': 'task_begin', 'task': path_in})
    _delay(path_in, 'before')
    _current_task[0] = path_in
    _log({'ev': 'start', 'task': path_in})
    try:
        result = real_converter(CONFIG['converter'])(path_in, array_reduction, path_out, frame_slice, channels, field_width, float_format)
        _log({'ev': 'end', 'task': path_in, 'exception': bool(result.exception), 'ignored': bool(result.ignored), 'las_count': result.las_count})
        return result
    except BaseException as e:
        _log({'ev': 'raised', 'task': path_in, 'exc': '%s: %s' % (type(e).__name__, str(e)[:300])})
        raise
    finally:
        _current_task[0] = None
        _delay(path_in, 'after')
        _log({'ev': 'task_end', 'task': path_in})


def _rel(path):
    base = CONFIG.get('dir_in')
    return os.path.relpath(path, base) if base else os.path.basename(path)


def _strip_result(r):
    return {'path_input': _rel(r.path_input), 'binary_file_type': r.binary_file_type, 'size_input': r.size_input,
            'size_output': r.size_output, 'las_count': r.las_count, 'exception': bool(r.exception), 'ignored': bool(r.ignored)}


def main(argv):
    """usage: python -m tdv.props.c12_worker <spec.json>   (run by the C12 shard with a timeout)"""
    with open(argv[0]) as f:
        spec = json.load(f)
    sys.path.insert(0, os.path.join(spec['repo'], 'src'))
    import logging

    class _Capture(logging.Handler):
        # what the converters log at ERROR and above is kept out of the terminal and counted by exception type: the evidence shows
        # whether failing files fail with the format's own errors or with others (KeyError, UnicodeDecodeError ... from damaged content)
        def emit(self, record):
            try:
                exc = record.exc_info[0].__name__ if record.exc_info and record.exc_info[0] else 'no-exception-attached'
                _log({'ev': 'logged_exc', 'task': _current_task[0] or '', 'exc': exc, 'level': record.levelname})
            except Exception:  # noqa
                pass
    root = logging.getLogger()
    for h in list(root.handlers):
        root.removeHandler(h)
    root.addHandler(_Capture())
    root.setLevel(logging.ERROR)
    logging.disable(logging.WARNING)
    if spec.get('native_preseed'):
        from tdv.core import env, native
        env.bootstrap_repo()
        native.preseed('plain')
    from TotalDepth.LAS.core import WriteLAS
    from TotalDepth.common import Slice
    CONFIG.update(converter=spec['converter'], log=spec['log'], delay_seed=spec['delay_seed'], max_delay_ms=spec.get('max_delay_ms', 30), dir_in=spec['dir_in'])
    recurse = bool(spec.get('recurse', False))
    fs = spec['frame_slice']
    frame_slice = Slice.Sample(fs['sample']) if 'sample' in fs else Slice.Slice(fs.get('start'), fs.get('stop'), fs.get('step'))
    args = (spec['array_reduction'], frame_slice, set(spec['channels']), spec['field_width'], spec['float_format'])
    out = {'mode': spec['mode'], 'raised': None, 'results': None}
    from tdv.mon.hits import MechanismHits
    hits = MechanismHits([
        ('TotalDepth.LAS.core.WriteLAS', 'convert_dir_or_file_to_las'), ('TotalDepth.LAS.core.WriteLAS', 'convert_dir_or_file_to_las_multiprocessing'),
        ('TotalDepth.util.DirWalk', 'dirWalk'), ('TotalDepth.util.DirWalk', 'gen_big_first'),
        ('TotalDepth.RP66V1.ToLAS', 'single_rp66v1_file_to_las'), ('TotalDepth.RP66V1.ToLAS', 'las_file_name'),
        ('TotalDepth.LIS.ToLAS', 'single_lis_file_to_las'), ('TotalDepth.BIT.ToLAS', 'single_bit_path_to_las_path'),
        ('TotalDepth.util.bin_file_type', 'binary_file_type_from_path'),
    ])
    hits.start()      # counts calls made in this (driver) process; pool workers are forks and are seen through the event log
    try:
        if spec['mode'] == 'seq':
            res = WriteLAS.convert_dir_or_file_to_las(spec['dir_in'], spec['dir_out'], recurse, args[0], args[1], args[2], args[3], args[4], wrapped_conversion)
        elif spec['mode'] == 'mp':
            res = WriteLAS.convert_dir_or_file_to_las_multiprocessing(spec['dir_in'], spec['dir_out'], recurse, args[0], args[1], args[2], args[3], args[4], spec['jobs'], wrapped_conversion)
        elif spec['mode'] == 'alone':
            res = {}
            names = []
            for dp, dn, fn in os.walk(spec['dir_in']):
                dn.sort()
                if not recurse:
                    del dn[:]
                names += [os.path.relpath(os.path.join(dp, f), spec['dir_in']) for f in sorted(fn)]
            import pickle
            for name in sorted(names):
                p = os.path.join(spec['dir_in'], name)
                # the per-file ground truth: a fresh process (fork) and a fresh channel set for every file, so that no state
                # carried over from another file's conversion can reach it
                rfd, wfd = os.pipe()
                pid = os.fork()
                if pid == 0:
                    try:
                        os.close(rfd)
                        single = WriteLAS.convert_dir_or_file_to_las(p, os.path.join(spec['dir_out'], name), False, args[0], args[1], set(spec['channels']), args[3], args[4], wrapped_conversion)
                        payload = pickle.dumps(('ok', {k: tuple(v) for k, v in single.items()}))
                    except BaseException as e:
                        payload = pickle.dumps(('raised', '%s: %s' % (type(e).__name__, str(e)[:300])))
                    with os.fdopen(wfd, 'wb') as wf:
                        wf.write(payload)
                    os._exit(0)
                os.close(wfd)
                with os.fdopen(rfd, 'rb') as rf:
                    blob = rf.read()
                os.waitpid(pid, 0)
                status, value = pickle.loads(blob) if blob else ('raised', 'child died without a result')
                if status != 'ok':
                    raise RuntimeError('file-alone conversion of %s raised %s' % (name, value))
                res.update({k: WriteLAS.LASWriteResult(*v) for k, v in value.items()})
        elif spec['mode'] == 'steps':
            # bounded progress, decided on a logical clock: every file is converted on its own in a forked process under a
            # LINE-event counter; a conversion that is still running after spec['step_budget'] lines is reported, not waited for
            import pickle
            from tdv.mon.hits import StepCounter, StepBudgetExceeded
            res = {}
            steps = {}
            names = []
            for dp, dn, fn in os.walk(spec['dir_in']):
                dn.sort()
                if not recurse:
                    del dn[:]
                names += [os.path.relpath(os.path.join(dp, f), spec['dir_in']) for f in sorted(fn)]
            for name in sorted(names):
                p = os.path.join(spec['dir_in'], name)
                rfd, wfd = os.pipe()
                pid = os.fork()
                if pid == 0:
                    try:
                        os.close(rfd)
                        sc = StepCounter()
                        sc.sticky = 200000
                        conv = real_converter(spec['converter'])
                        po = os.path.join(spec['dir_out'], name)
                        os.makedirs(os.path.dirname(po), exist_ok=True)
                        try:
                            r, n = sc.run(lambda: conv(p, args[0], po, args[1], set(spec['channels']), args[3], args[4]), budget=spec['step_budget'])
                            payload = pickle.dumps(('ok', n, bool(r.exception), bool(r.ignored)))
                        except StepBudgetExceeded:
                            import traceback
                            payload = pickle.dumps(('over', sc.n, traceback.format_exc()[-1800:], None))
                    except BaseException as e:
                        payload = pickle.dumps(('raised', 0, '%s: %s' % (type(e).__name__, str(e)[:300]), None))
                    with os.fdopen(wfd, 'wb') as wf:
                        wf.write(payload)
                    os._exit(0)
                os.close(wfd)
                with os.fdopen(rfd, 'rb') as rf:
                    blob = rf.read()
                os.waitpid(pid, 0)
                steps[name] = list(pickle.loads(blob)) if blob else ['died', 0, 'child died without a result', None]
            out['steps'] = steps
        else:
            raise ValueError(spec['mode'])
        out['results'] = {_rel(k): _strip_result(v) for k, v in res.items()}
        out['keys_match_path_input'] = all(os.path.abspath(k) == os.path.abspath(v.path_input) for k, v in res.items())
    except BaseException as e:  # the batch call raised: that is itself an observation
        import traceback
        out['raised'] = '%s: %s' % (type(e).__name__, str(e)[:300])
        out['traceback'] = traceback.format_exc()[-2500:]
    hits.stop()
    out['mechanism_hits'] = hits.counts
    with open(spec['result'], 'w') as f:
        json.dump(out, f)
    # multiprocessing.Pool in the batch function is never closed; leave hard so that lingering workers cannot hang us
    sys.stdout.flush()
    os._exit(0)


if __name__ == '__main__':
    main(sys.argv[1:])
