"""C15 Frame slice and sample selectors select what they say."""
import itertools

ID = 'C15'
TITLE = 'Frame slice and sample selectors select what they say'
NATIVE = None
NEEDS = ('icontract',)
RULE = ('Exhaustive: every (n, start, stop, step) with n in 0..N, start/stop in {None} u [-N..N], step in {None} u [1..N]; '
        'every Sample(k), k in 1..3N on n in 0..4N; plus grammar-generated and malformed option strings and random large '
        'values.  A case is one (selector, n) or one option string; non-trivial = selects >= 2 indices with a step/stride > 1 '
        'or a negative/absent bound, or (strings) any string that is not the default ",,".  Distinct by the tuple itself.')
ASSUMPTIONS = [
    'Python built-in slicing is the reference for Slice; the sample definition of the property text is the reference for Sample',
    'step <= 0 is outside the property quantifier (step in 1..N or absent) and is not asserted',
    'option strings with digit separators/underscores or unicode digits are not generated (int() accepts them; the property does not name them)',
]
MECHANISMS = [
    ('TotalDepth.common.Slice', 'Slice.first'), ('TotalDepth.common.Slice', 'Slice.count'),
    ('TotalDepth.common.Slice', 'Slice.gen_indices'), ('TotalDepth.common.Slice', 'Slice.indices'),
    ('TotalDepth.common.Slice', 'Sample.gen_indices'), ('TotalDepth.common.Slice', 'Sample.count'),
    ('TotalDepth.common.Slice', 'create_slice_or_sample'),
]
REQUIRED_MONITORS = ['slice_vs_python', 'sample_definition', 'parser_accepts', 'parser_rejects', 'shared_object_interleaved',
                     'contract:Slice.indices', 'contract:Slice.count']
MIN_NONTRIVIAL = {'quick': 20000, 'thorough': 150000}
N_FOR = {'quick': 9, 'thorough': 14}
NSHARDS = 16


def plan(tier, seed):
    N = N_FOR[tier]
    return [{'N': N, 'part': i, 'parts': NSHARDS} for i in range(NSHARDS)]


def check_slice(rec, S, a, b, c, n):
    sl = S.Slice(a, b, c)
    exp = list(range(n))[a:b:c]
    got = sl.indices(n)
    gen = list(sl.gen_indices(n))
    cnt = sl.count(n)
    rec.mon('slice_vs_python')
    w = {'selector': 'Slice(%r,%r,%r)' % (a, b, c), 'n': n, 'expected': exp[:30]}
    if got != exp:
        rec.violation('slice_vs_python', 'indices', 'Slice(%r,%r,%r).indices(%d)=%r expected %r' % (a, b, c, n, got[:30], exp[:30]), dict(w, got=got[:30]))
    if gen != exp:
        rec.violation('slice_vs_python', 'gen_indices', 'Slice(%r,%r,%r).gen_indices(%d)=%r expected %r' % (a, b, c, n, gen[:30], exp[:30]), dict(w, got=gen[:30]))
    if cnt != len(exp):
        rec.violation('slice_vs_python', 'count', 'Slice(%r,%r,%r).count(%d)=%r expected %d' % (a, b, c, n, cnt, len(exp)), dict(w, got=cnt))
    if exp:
        f = sl.first(n)
        if f != exp[0]:
            rec.violation('slice_vs_python', 'first', 'Slice(%r,%r,%r).first(%d)=%r expected %d' % (a, b, c, n, f, exp[0]), dict(w, got=f))
    return len(exp)


def check_sample(rec, S, k, n):
    sm = S.Sample(k)
    got = sm.indices(n)
    gen = list(sm.gen_indices(n))
    cnt = sm.count(n)
    rec.mon('sample_definition')
    w = {'selector': 'Sample(%d)' % k, 'n': n, 'got': got[:40]}
    m = min(k, n)
    bad = None
    if len(got) != m:
        bad = 'selects %d indices, expected min(N,n)=%d' % (len(got), m)
    elif any(y <= x for x, y in zip(got, got[1:])):
        bad = 'indices not strictly increasing'
    elif got and got[0] != 0:
        bad = 'does not begin with 0'
    elif got and got[-1] >= n:
        bad = 'index outside the sequence'
    else:
        gaps = [y - x for x, y in zip(got, got[1:])]
        if gaps and max(gaps) - min(gaps) > 1:
            bad = 'consecutive gaps differ by more than one: %r' % gaps[:30]
    if bad:
        rec.violation('sample_definition', 'indices', 'Sample(%d) on %d: %s' % (k, n, bad), w)
    if gen != got:
        rec.violation('sample_definition', 'gen_vs_list', 'Sample(%d) on %d: gen_indices %r != indices %r' % (k, n, gen[:30], got[:30]), w)
    if cnt != len(got):
        rec.violation('sample_definition', 'count', 'Sample(%d).count(%d)=%r but %d indices' % (k, n, cnt, len(got)), w)
    if got and sm.first(n) != got[0]:
        rec.violation('sample_definition', 'first', 'Sample(%d).first(%d)=%r' % (k, n, sm.first(n)), w)
    return len(got)


def fmt_part(rng, v):
    if v is None:
        s = rng.choice(['', 'None'])
    else:
        s = str(v)
        if v >= 0 and rng.random() < 0.15:
            s = '+' + s
    return ' ' * rng.choice([0, 0, 0, 1, 2]) + s + ' ' * rng.choice([0, 0, 0, 1, 3])


def run_shard(ctx, p):
    from TotalDepth.common import Slice as S
    from tdv.mon import contracts
    contracts.install_slice_contracts()
    rec, rng = ctx.rec, ctx.rng
    N, part, parts = p['N'], p['part'], p['parts']
    bounds = [None] + list(range(-N, N + 1))
    steps = [None] + list(range(1, N + 1))
    # ---- exhaustive slices: the (start, stop) pairs are dealt round-robin to the shards
    pairs = list(itertools.product(bounds, bounds))
    mine = pairs[part::parts]
    evals = nt = 0
    for a, b in mine:
        for c in steps:
            for n in range(0, N + 1):
                k = check_slice(rec, S, a, b, c, n)
                evals += 1
                if k >= 2 and ((c or 1) > 1 or a is None or b is None or (a or 0) < 0 or (b or 0) < 0):
                    nt += 1
    rec.bulk_cases('slice n<=%d start,stop in None|[-%d..%d] step in None|[1..%d]' % (N, N, N, N), evals, nt,
                   exhaustive=True, sample={'selector': 'Slice(%r,%r,%r)' % (mine[0][0], mine[0][1], 3), 'n': N,
                                            'selected': list(range(N))[mine[0][0]:mine[0][1]:3]})
    # ---- exhaustive samples
    evals = nt = 0
    ks = list(range(1, 3 * N + 1))[part::parts]
    for k in ks:
        for n in range(0, 4 * N + 1):
            got = check_sample(rec, S, k, n)
            evals += 1
            if got >= 2 and k < n:
                nt += 1
    rec.bulk_cases('sample k<=%d on n<=%d' % (3 * N, 4 * N), evals, nt, exhaustive=True,
                   sample={'selector': 'Sample(%d)' % ks[0], 'n': 4 * N, 'selected': S.Sample(ks[0]).indices(4 * N)})
    # ---- random large values (not exhaustive)
    for _ in range(1500 if ctx.tier == 'quick' else 20000):
        n = rng.choice([rng.randrange(0, 50), rng.randrange(50, 5000), rng.randrange(5000, 200000)])
        if rng.random() < 0.5:
            a = rng.choice([None, rng.randrange(-2 * n - 2, 2 * n + 2)])
            b = rng.choice([None, rng.randrange(-2 * n - 2, 2 * n + 2)])
            c = rng.choice([None, rng.randrange(1, max(2, n))])
            k = check_slice(rec, S, a, b, c, n)
            rec.case(('slice', a, b, c, n), k >= 2, classes=['random-large-slice'])
        else:
            kk = rng.randrange(1, 2 * n + 3)
            k = check_sample(rec, S, kk, n)
            rec.case(('sample', kk, n), k >= 2 and kk < n, classes=['random-large-sample'])
    # ---- one selector object used on several sequences at once (as the converters do: one --frame-slice object for every log pass)
    import itertools as _it
    for _ in range(400 if ctx.tier == 'quick' else 6000):
        n1, n2 = rng.randrange(0, 60), rng.randrange(0, 60)
        if rng.random() < 0.6:
            k = rng.randrange(1, 40)
            sel, fresh, desc = S.Sample(k), (lambda: S.Sample(k)), 'Sample(%d)' % k
        else:
            a, b, c = rng.choice([None, rng.randrange(-30, 30)]), rng.choice([None, rng.randrange(-30, 60)]), rng.choice([None, rng.randrange(1, 9)])
            sel, fresh, desc = S.Slice(a, b, c), (lambda: S.Slice(a, b, c)), 'Slice(%r,%r,%r)' % (a, b, c)
        exp1, exp2 = fresh().indices(n1), fresh().indices(n2)
        g1, g2 = sel.gen_indices(n1), sel.gen_indices(n2)
        got1, got2 = [], []
        m = rng.randrange(0, 60)
        for x, y in _it.zip_longest(g1, g2):
            if x is not None:
                got1.append(x)
            if y is not None:
                got2.append(y)
            if rng.random() < 0.3:      # other questions asked of the same object while the generators are live
                rng.choice([sel.count, sel.first, sel.step, sel.indices])(m)
        rec.mon('shared_object_interleaved')
        rec.case(('interleaved', desc, n1, n2, m), len(exp1) >= 2 and len(exp2) >= 2 and n1 != n2, classes=['one-object-two-sequences'])
        if got1 != exp1 or got2 != exp2 or sel.indices(n1) != exp1 or sel.count(n2) != len(exp2):
            rec.violation('shared_object_interleaved', 'state-carried-over',
                          '%s used on lengths %d and %d at once: generated %r and %r, a fresh selector gives %r and %r' % (desc, n1, n2, got1[:20], got2[:20], exp1[:20], exp2[:20]),
                          {'selector': desc, 'n1': n1, 'n2': n2, 'got1': got1[:40], 'got2': got2[:40], 'expected1': exp1[:40], 'expected2': exp2[:40]})
    # ---- parser
    def parse(s):
        try:
            return ('ok', S.create_slice_or_sample(s))
        except Exception as e:  # noqa
            return ('raise', e)

    nstr = 1200 if ctx.tier == 'quick' else 12000
    for _ in range(nstr):
        kind = rng.random()
        if kind < 0.45:
            vals = [rng.choice([None, rng.randrange(-300, 300)]) for _ in range(3)]
            s = ','.join(fmt_part(rng, v) for v in vals)
            r = parse(s)
            rec.mon('parser_accepts')
            rec.case(('str', s), s != ',,', classes=['string-slice'], sample={'option_string': s})
            if r[0] != 'ok' or not isinstance(r[1], S.Slice) or r[1] != S.Slice(*vals):
                rec.violation('parser_accepts', 'slice-string', 'create_slice_or_sample(%r) -> %r, expected Slice%r' % (s, r[1], tuple(vals)),
                              {'string': s, 'expected': repr(tuple(vals)), 'got': repr(r[1])}, exc=r[1] if r[0] == 'raise' else None)
            elif vals[2] is None or vals[2] > 0:
                n = rng.randrange(0, 400)
                if r[1].indices(n) != list(range(n))[vals[0]:vals[1]:vals[2]]:
                    rec.violation('parser_accepts', 'slice-string-semantics', '%r on %d' % (s, n), {'string': s, 'n': n})
        elif kind < 0.6:
            k = rng.randrange(1, 100000)
            s = ' ' * rng.choice([0, 0, 1]) + str(k) + ' ' * rng.choice([0, 0, 2])
            r = parse(s)
            rec.mon('parser_accepts')
            rec.case(('str', s), True, classes=['string-sample'])
            if r[0] != 'ok' or not isinstance(r[1], S.Sample) or r[1] != S.Sample(k):
                rec.violation('parser_accepts', 'sample-string', 'create_slice_or_sample(%r) -> %r, expected Sample(%d)' % (s, r[1], k),
                              {'string': s, 'got': repr(r[1])}, exc=r[1] if r[0] == 'raise' else None)
        else:
            # malformed
            sub = rng.random()
            word = rng.choice(['a', 'x1', '1.5', '2e3', '0x10', '--1', '1-', 'none', 'NONE', 'nil', '1 2', '*', '1;2', 'one'])
            ints = [str(rng.randrange(-50, 50)) for _ in range(6)]
            if sub < 0.25:
                nparts = rng.choice([2, 4, 5, 6])
                s = ','.join(rng.choice(['', 'None', ints[i]]) for i in range(nparts))
                why = 'wrong-part-count'
            elif sub < 0.55:
                parts3 = [rng.choice(['', 'None', ints[i]]) for i in range(3)]
                parts3[rng.randrange(3)] = word
                s = ','.join(parts3)
                why = 'non-integer-part'
            elif sub < 0.75:
                s = rng.choice([word, '', ' ', 'None'])
                why = 'non-integer-sample'
            else:
                s = str(rng.choice([0, 0, -1, -2, -rng.randrange(1, 10 ** 6)]))
                why = 'sample-below-one'
            r = parse(s)
            rec.mon('parser_rejects')
            rec.case(('str', s), True, classes=['string-malformed-' + why])
            if r[0] == 'ok':
                rec.violation('parser_rejects', why, 'create_slice_or_sample(%r) accepted malformed text -> %s' % (s, r[1]),
                              {'string': s, 'class': why, 'got': str(r[1])})
            elif not isinstance(r[1], (ValueError, TypeError)):
                rec.violation('parser_rejects', why + '-exception-type', 'create_slice_or_sample(%r) raised %s, not a ValueError/TypeError rejection' % (s, type(r[1]).__name__),
                              {'string': s, 'class': why}, exc=r[1])
    # ---- contracts observed
    for name, cnt in contracts.COUNTS.items():
        rec.mon('contract:' + name, cnt)
    for name, msg in contracts.drain():
        rec.violation('contract:' + name, 'breach', msg, {'contract': name, 'message': msg})

LEVEL_TEXT = ('Exhaustive small-scope enumeration of selectors against Python slicing and the sample definition, plus random large '
              'cases and grammar/malformed option strings, with icontract postconditions on the real Slice/Sample methods. '
              'Complete for the stated N; beyond it only sampled.')
LEVEL_NOTE = 'Trusted: Python built-in slice semantics; icontract; the harness enumeration. Not a proof for n > N.'
TECHNIQUE = 'runtime monitoring: exhaustive small-scope differential against Python slicing + icontract postconditions on the live classes'
