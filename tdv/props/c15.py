"""C15 Frame slice and sample selectors select what they say."""
import itertools

ID = 'C15'
TITLE = 'Frame slice and sample selectors select what they say'
NATIVE = None
NEEDS = ('icontract',)
RULE = ('Exhaustive: every (n, start, stop, step) with n in 0..N, start/stop in {None} u [-N..N], step in {None} u [1..N]; '
        'every Sample(k), k in 1..3N on n in 0..4N; plus grammar-generated and malformed option strings and random large '
        'values, sequences far longer than any machine word (n up to 10^30 with a step that keeps the selection small), bounds and '
        'steps beyond 2^64, sample sizes next to n; every option string accepted is also applied to sequences and compared with the '
        'denoted selector semantically; the --frame-slice option as argparse delivers it.  '
        'A case is one (selector, n) or one option string; non-trivial = selects >= 2 indices with a step/stride > 1 '
        'or a negative/absent bound, or (strings) any string that is not the default ",,".  Distinct by the tuple itself.')
ASSUMPTIONS = [
    'Python built-in slicing is the reference for Slice; the sample definition of the property text is the reference for Sample',
    'step <= 0 is outside the property quantifier (step in 1..N or absent) and is not asserted',
    'option strings with digit separators/underscores, unicode digits, leading zeros or blanks other than the space are not generated (int() accepts them; the property does not name them)',
    'first() is asserted only for a non-empty selection (the property speaks of the first index of a selection)',
]
MECHANISMS = [
    ('TotalDepth.common.Slice', 'Slice.first'), ('TotalDepth.common.Slice', 'Slice.count'),
    ('TotalDepth.common.Slice', 'Slice.gen_indices'), ('TotalDepth.common.Slice', 'Slice.indices'),
    ('TotalDepth.common.Slice', 'Sample.gen_indices'), ('TotalDepth.common.Slice', 'Sample.count'),
    ('TotalDepth.common.Slice', 'create_slice_or_sample'),
]
REQUIRED_MONITORS = ['slice_vs_python', 'sample_definition', 'returned_list_is_the_callers', 'parser_accepts', 'parser_rejects', 'shared_object_interleaved', 'option_via_argparse',
                     'contract:Slice.indices', 'contract:Slice.count']
MIN_NONTRIVIAL = {'quick': 20000, 'thorough': 150000}
N_FOR = {'quick': 9, 'thorough': 14}
NSHARDS = 16


def plan(tier, seed):
    N = N_FOR[tier]
    return [{'N': N, 'part': i, 'parts': NSHARDS} for i in range(NSHARDS)]


def check_slice(rec, S, a, b, c, n, sl=None):
    """A wrong selector must never be able to exhaust the harness: the generated indices are taken lazily and only as far
    as the expected selection reaches (+2); nothing is materialised by the selector itself (count() and indices() build
    lists) unless what it generates is right, and indices() only when count() is plausible."""
    sl = sl or S.Slice(a, b, c)
    if n > 10 ** 6 and len(range(n)[a:b:c]) > 10 ** 5:
        raise RuntimeError('harness: generated selection too large: %r' % ((a, b, c, n),))
    # Python's own slicing: of a list for short sequences, of the (lazy) range object for sequences no list could hold
    exp = list(range(n))[a:b:c] if n <= 10 ** 6 else list(range(n)[a:b:c])
    rec.mon('slice_vs_python')
    w = {'selector': 'Slice(%r,%r,%r)' % (a, b, c), 'n': n, 'expected': exp[:30]}
    what = 'gen_indices'
    try:
        gen = list(itertools.islice(sl.gen_indices(n), len(exp) + 2))
        if gen != exp:
            rec.violation('slice_vs_python', 'gen_indices', 'Slice(%r,%r,%r).gen_indices(%d)=%r%s expected %r' % (
                a, b, c, n, gen[:30], ' ...' if len(gen) > len(exp) else '', exp[:30]), dict(w, got=gen[:30]))
            return len(exp)
        what = 'count'
        cnt = sl.count(n)
        if cnt != len(exp):
            rec.violation('slice_vs_python', 'count', 'Slice(%r,%r,%r).count(%d)=%r expected %d' % (a, b, c, n, cnt, len(exp)), dict(w, got=cnt))
        if isinstance(cnt, int) and cnt <= max(n, len(exp)):
            what = 'indices'
            got = sl.indices(n)
            if got != exp:
                rec.violation('slice_vs_python', 'indices', 'Slice(%r,%r,%r).indices(%d)=%r expected %r' % (a, b, c, n, got[:30], exp[:30]), dict(w, got=got[:30]))
            elif len(exp) <= 1000 and isinstance(got, list):
                # the list is the caller's: whatever the caller does to it, the same question asked again (of this object and
                # of an equal, fresh one) has the same answer
                what = 'indices-after-the-caller-edited-the-list'
                rec.mon('returned_list_is_the_callers')
                got.append(-12345)
                del got[:1]
                again, fresh, cnt2 = sl.indices(n), S.Slice(a, b, c).indices(n), sl.count(n)
                if again != exp or fresh != exp or cnt2 != len(exp):
                    rec.violation('returned_list_is_the_callers', 'aliased', 'Slice(%r,%r,%r).indices(%d): after the caller edited the list it was given, indices() gives %r (a fresh equal Slice %r, count() %r), expected %r' % (
                        a, b, c, n, again[:30], fresh[:30], cnt2, exp[:30]), dict(w, again=again[:30], fresh=fresh[:30], count=cnt2))
        if exp:
            what = 'first'
            f = sl.first(n)
            if f != exp[0]:
                rec.violation('slice_vs_python', 'first', 'Slice(%r,%r,%r).first(%d)=%r expected %d' % (a, b, c, n, f, exp[0]), dict(w, got=f))
    except (Exception, MemoryError) as e:  # noqa
        rec.violation('slice_vs_python', 'raises', 'Slice(%r,%r,%r).%s(%d) raised %s: %s' % (a, b, c, what, n, type(e).__name__, str(e)[:200]),
                      dict(w, method=what, exception=type(e).__name__), exc=e if isinstance(e, Exception) else None)
    return len(exp)


def sample_defect(got, k, n):
    """The sample definition of the property text applied to an index list; None when it holds."""
    m = min(k, n)
    if len(got) != m:
        return 'selects %d indices, expected min(N,n)=%d' % (len(got), m)
    if any(y <= x for x, y in zip(got, got[1:])):
        return 'indices not strictly increasing'
    if got and got[0] != 0:
        return 'does not begin with 0'
    if got and got[-1] >= n:
        return 'index outside the sequence'
    gaps = [y - x for x, y in zip(got, got[1:])]
    if gaps and max(gaps) - min(gaps) > 1:
        return 'consecutive gaps differ by more than one: %r' % gaps[:30]
    return None


def check_sample(rec, S, k, n, sm=None):
    sm = sm or S.Sample(k)
    m = min(k, n)
    rec.mon('sample_definition')
    what = 'gen_indices'
    w = {'selector': 'Sample(%d)' % k, 'n': n}
    try:
        gen = list(itertools.islice(sm.gen_indices(n), m + 2))       # lazily, and no further than a right answer reaches
        w['got'] = gen[:40]
        bad = sample_defect(gen, k, n)
        if bad:
            rec.violation('sample_definition', 'indices', 'Sample(%d) on %d: %s' % (k, n, bad), w)
            return m
        what = 'count'
        cnt = sm.count(n)
        if cnt != len(gen):
            rec.violation('sample_definition', 'count', 'Sample(%d).count(%d)=%r but %d indices' % (k, n, cnt, len(gen)), w)
        if isinstance(cnt, int) and cnt <= n:
            what = 'indices'
            got = sm.indices(n)
            if gen != got:
                rec.violation('sample_definition', 'gen_vs_list', 'Sample(%d) on %d: gen_indices %r != indices %r' % (k, n, gen[:30], got[:30]), w)
            elif len(gen) <= 1000 and isinstance(got, list):
                what = 'indices-after-the-caller-edited-the-list'
                rec.mon('returned_list_is_the_callers')
                got.append(-12345)
                del got[:1]
                again, fresh, cnt2 = sm.indices(n), S.Sample(k).indices(n), sm.count(n)
                if again != gen or fresh != gen or cnt2 != len(gen):
                    rec.violation('returned_list_is_the_callers', 'aliased', 'Sample(%d).indices(%d): after the caller edited the list it was given, indices() gives %r (a fresh equal Sample %r, count() %r), expected %r' % (
                        k, n, again[:30], fresh[:30], cnt2, gen[:30]), dict(w, again=again[:30], fresh=fresh[:30], count=cnt2))
        what = 'first'
        if gen and sm.first(n) != gen[0]:
            rec.violation('sample_definition', 'first', 'Sample(%d).first(%d)=%r' % (k, n, sm.first(n)), w)
    except (Exception, MemoryError) as e:  # noqa
        rec.violation('sample_definition', 'raises', 'Sample(%d).%s(%d) raised %s: %s' % (k, what, n, type(e).__name__, str(e)[:200]),
                      dict(w, method=what, exception=type(e).__name__), exc=e if isinstance(e, Exception) else None)
    return m


def lazy_indices(sel, n, limit):
    """What a selector generates on n, taken lazily and at most limit + 2 of it."""
    return list(itertools.islice(sel.gen_indices(n), limit + 2))


def fmt_part(rng, v):
    if v is None:
        s = rng.choice(['', 'None'])
    else:
        s = str(v)
        if v >= 0 and rng.random() < 0.15:
            s = '+' + s
        elif v == 0 and rng.random() < 0.3:
            s = '-0'
    return ' ' * rng.choice([0, 0, 0, 1, 2]) + s + ' ' * rng.choice([0, 0, 0, 1, 3])


def run_shard(ctx, p):
    from TotalDepth.common import Slice as S
    from tdv.mon import contracts
    contracts.install_slice_contracts()
    rec, rng = ctx.rec, ctx.rng
    try:       # last line of defence: a selector that builds a list of 10^9 indices gets a MemoryError (a recorded violation), not the OOM killer
        import resource
        soft, hard = resource.getrlimit(resource.RLIMIT_AS)
        cap = 3 << 30
        if soft == resource.RLIM_INFINITY or soft > cap:
            resource.setrlimit(resource.RLIMIT_AS, (cap, hard))
    except Exception:  # noqa
        pass
    N, part, parts = p['N'], p['part'], p['parts']
    bounds = [None] + list(range(-N, N + 1))
    steps = [None] + list(range(1, N + 1))
    # ---- exhaustive slices: the (start, stop) pairs are dealt round-robin to the shards
    pairs = list(itertools.product(bounds, bounds))
    mine = pairs[part::parts]
    evals = nt = 0
    for a, b in mine:
        for c in steps:
            for n in range(0, N + 1):
                k = check_slice(rec, S, a, b, c, n)
                evals += 1
                if k >= 2 and ((c or 1) > 1 or a is None or b is None or (a or 0) < 0 or (b or 0) < 0):
                    nt += 1
    rec.bulk_cases('slice n<=%d start,stop in None|[-%d..%d] step in None|[1..%d]' % (N, N, N, N), evals, nt,
                   exhaustive=True, sample={'selector': 'Slice(%r,%r,%r)' % (mine[0][0], mine[0][1], 3), 'n': N,
                                            'selected': list(range(N))[mine[0][0]:mine[0][1]:3]})
    # ---- exhaustive samples
    evals = nt = 0
    ks = list(range(1, 3 * N + 1))[part::parts]
    for k in ks:
        for n in range(0, 4 * N + 1):
            got = check_sample(rec, S, k, n)
            evals += 1
            if got >= 2 and k < n:
                nt += 1
    rec.bulk_cases('sample k<=%d on n<=%d' % (3 * N, 4 * N), evals, nt, exhaustive=True,
                   sample={'selector': 'Sample(%d)' % ks[0], 'n': 4 * N, 'selected': S.Sample(ks[0]).indices(4 * N)})
    # ---- random large values (not exhaustive)
    for _ in range(1500 if ctx.tier == 'quick' else 20000):
        n = rng.choice([rng.randrange(0, 50), rng.randrange(50, 5000), rng.randrange(5000, 200000)])
        if rng.random() < 0.5:
            a = rng.choice([None, rng.randrange(-2 * n - 2, 2 * n + 2)])
            b = rng.choice([None, rng.randrange(-2 * n - 2, 2 * n + 2)])
            c = rng.choice([None, rng.randrange(1, max(2, n))])
            k = check_slice(rec, S, a, b, c, n)
            rec.case(('slice', a, b, c, n), k >= 2, classes=['random-large-slice'])
        else:
            kk = rng.randrange(1, 2 * n + 3)
            k = check_sample(rec, S, kk, n)
            rec.case(('sample', kk, n), k >= 2 and kk < n, classes=['random-large-sample'])
    # ---- sequences, bounds and steps beyond any machine word (the selection itself stays small)
    HUGE_N = [2 ** 31 - 1, 2 ** 31, 2 ** 32 + 1, 2 ** 53 + 1, 2 ** 63 - 1, 2 ** 63, 2 ** 64 + 3, 10 ** 12, 10 ** 30]
    for _ in range(250 if ctx.tier == 'quick' else 4000):
        n = rng.choice(HUGE_N + [rng.randrange(10 ** 6, 10 ** 19)])
        kind = rng.randrange(4)
        if kind == 0:          # a step of the order of n / (a few): any bounds
            c = max(1, n // rng.randrange(1, 40) + rng.choice([-1, 0, 1, 7]))
            a = rng.choice([None, 0, rng.randrange(0, c + 1), -rng.randrange(1, n + 2), rng.randrange(-3 * n, 3 * n), -(10 ** 40), 10 ** 40])
            b = rng.choice([None, n, n - 1, rng.randrange(-3 * n, 3 * n), -(10 ** 40), 10 ** 40])
        elif kind == 1:        # a short window somewhere, small or absent step
            a = rng.choice([0, 1, n - rng.randrange(0, 70), -rng.randrange(1, 70), rng.randrange(0, n), -rng.randrange(1, n + 1)])
            b = a + rng.randrange(-5, 60)
            if a >= 0 > b:
                b = a                  # (a non-negative start with a negative stop would select nearly everything)
            c = rng.choice([None, 1, 2, 7, 10 ** 20])
        elif kind == 2:        # one bound absent
            c = rng.choice([None, 1, 3])
            if rng.random() < 0.5:
                a, b = None, rng.choice([rng.randrange(0, 60), -n + rng.randrange(-3, 60), -n - 5, 0])
            else:
                a, b = rng.choice([n - rng.randrange(0, 60), -rng.randrange(1, 60), n, n + 10 ** 25]), None
        else:                  # a step far larger than the sequence
            a, b = rng.choice([None, 0, 5, -n, -1, -2]), rng.choice([None, n, -1, 10 ** 33])
            c = rng.choice([n, n + 1, n - 1, 2 * n, n * 10 ** 10, n + 2 ** 64])
        if kind == 3 or rng.random() < 0.8:
            k = check_slice(rec, S, a, b, c, n)
            rec.case(('slice', a, b, c, n), k >= 2, classes=['huge-n-slice'])
        else:
            kk = rng.choice([1, 2, 3, 17, 64, 10 ** 40, n + 1]) if rng.random() < 0.7 else rng.randrange(1, 200)
            if kk > 10 ** 6:
                n = rng.randrange(0, 300)           # a sample far larger than the sequence: every frame
            k = check_sample(rec, S, kk, n)
            rec.case(('sample', kk, n), k >= 2 and kk < n, classes=['huge-n-sample' if n > 10 ** 6 else 'huge-sample-size'])
    # ---- sample sizes next to the sequence length (where "min(N, n)" and the error diffusion change regime)
    for _ in range(120 if ctx.tier == 'quick' else 2000):
        n = rng.choice([rng.randrange(2, 300), rng.randrange(2, 300), rng.randrange(300, 8000)])
        for kk in sorted({max(1, n - 1), n, n + 1, max(1, n // 2), n // 2 + 1, max(1, n - 2), max(1, (2 * n) // 3)}):
            k = check_sample(rec, S, kk, n)
            rec.case(('sample', kk, n), k >= 2 and kk < n, classes=['sample-size-next-to-n'])
    # ---- one selector object used on several sequences at once (as the converters do: one --frame-slice object for every log pass)
    import itertools as _it
    for _ in range(400 if ctx.tier == 'quick' else 6000):
        n1, n2 = rng.randrange(0, 60), rng.randrange(0, 60)
        if rng.random() < 0.6:
            k = rng.randrange(1, 40)
            sel, fresh, desc = S.Sample(k), (lambda: S.Sample(k)), 'Sample(%d)' % k
        else:
            a, b, c = rng.choice([None, rng.randrange(-30, 30)]), rng.choice([None, rng.randrange(-30, 60)]), rng.choice([None, rng.randrange(1, 9)])
            sel, fresh, desc = S.Slice(a, b, c), (lambda: S.Slice(a, b, c)), 'Slice(%r,%r,%r)' % (a, b, c)
        exp1, exp2 = lazy_indices(fresh(), n1, n1), lazy_indices(fresh(), n2, n2)
        g1, g2 = itertools.islice(sel.gen_indices(n1), n1 + 2), itertools.islice(sel.gen_indices(n2), n2 + 2)
        got1, got2 = [], []
        asked_wrong = []
        m = rng.randrange(0, 60)
        for x, y in _it.zip_longest(g1, g2):
            if x is not None:
                got1.append(x)
            if y is not None:
                got2.append(y)
            if rng.random() < 0.3:      # other questions asked of the same object while the generators are live
                q = rng.choice(['count', 'first', 'indices', 'step'])
                mm = rng.choice([m, n1, n2])
                ans = getattr(sel, q)(mm)
                if q != 'step' and not (q == 'first' and not fresh().indices(mm)):
                    ref = {'count': len(fresh().indices(mm)), 'first': (fresh().indices(mm) or [None])[0], 'indices': fresh().indices(mm)}[q]
                    if ans != ref:
                        asked_wrong.append((q, mm, ans if q != 'indices' else ans[:20], ref if q != 'indices' else ref[:20]))
        rec.mon('shared_object_interleaved')
        rec.case(('interleaved', desc, n1, n2, m), len(exp1) >= 2 and len(exp2) >= 2 and n1 != n2, classes=['one-object-two-sequences'])
        after = [sel.indices(n1) == exp1, sel.count(n2) == len(exp2), sel.indices(n2) == exp2, sel.count(n1) == len(exp1),
                 list(sel.gen_indices(n1)) == exp1, not exp1 or sel.first(n1) == exp1[0], not exp2 or sel.first(n2) == exp2[0]]
        if asked_wrong:
            q, mm, ans, ref = asked_wrong[0]
            rec.violation('shared_object_interleaved', 'answer-while-generating',
                          '%s.%s(%d) asked while its generators for lengths %d and %d were live gave %r, a fresh selector gives %r' % (desc, q, mm, n1, n2, ans, ref),
                          {'selector': desc, 'n1': n1, 'n2': n2, 'question': q, 'length': mm, 'got': ans, 'expected': ref})
        if got1 != exp1 or got2 != exp2 or not all(after):
            rec.violation('shared_object_interleaved', 'state-carried-over',
                          '%s used on lengths %d and %d at once: generated %r and %r, a fresh selector gives %r and %r' % (desc, n1, n2, got1[:20], got2[:20], exp1[:20], exp2[:20]),
                          {'selector': desc, 'n1': n1, 'n2': n2, 'got1': got1[:40], 'got2': got2[:40], 'expected1': exp1[:40], 'expected2': exp2[:40]})
    # ---- parser
    def parse(s):
        try:
            return ('ok', S.create_slice_or_sample(s))
        except Exception as e:  # noqa
            return ('raise', e)

    nstr = 1200 if ctx.tier == 'quick' else 12000
    for _ in range(nstr):
        kind = rng.random()
        if kind < 0.45:
            def part_value():
                r = rng.random()
                if r < 0.3:
                    return None
                if r < 0.85:
                    return rng.randrange(-300, 300)
                return rng.choice([0, 1, -1, 2 ** 31, -2 ** 31 - 1, 2 ** 63, -2 ** 63 - 1, 2 ** 64 + 1, 10 ** 30, -10 ** 30, rng.randrange(-10 ** 12, 10 ** 12)])
            vals = [part_value() for _ in range(3)]
            s = ','.join(fmt_part(rng, v) for v in vals)
            r = parse(s)
            rec.mon('parser_accepts')
            rec.case(('str', s), s != ',,', classes=['string-slice'] + (['string-slice-beyond-64-bit'] if any(v is not None and abs(v) >= 2 ** 63 for v in vals) else []),
                     sample={'option_string': s})
            if r[0] != 'ok' or not isinstance(r[1], S.Slice) or r[1] != S.Slice(*vals):
                rec.violation('parser_accepts', 'slice-string', 'create_slice_or_sample(%r) -> %r, expected Slice%r' % (s, r[1], tuple(vals)),
                              {'string': s, 'expected': repr(tuple(vals)), 'got': repr(r[1])}, exc=r[1] if r[0] == 'raise' else None)
            elif vals[2] is None or vals[2] > 0:
                # the selector the string denotes, judged by what it selects (not by the selector's own __eq__)
                for n in (0, 1, rng.randrange(0, 400), rng.randrange(400, 3000), 10 ** 15 if (vals[2] or 1) >= 10 ** 13 else 7):
                    want = list(range(n)[vals[0]:vals[1]:vals[2]])
                    sel = lazy_indices(r[1], n, len(want))
                    if sel != want:
                        rec.violation('parser_accepts', 'slice-string-semantics', '%r parsed to %s selects %r on %d, Python slicing %r' % (
                            s, r[1], sel[:20], n, want[:20]), {'string': s, 'n': n})
                        break
        elif kind < 0.6:
            k = rng.choice([rng.randrange(1, 100000), rng.randrange(1, 40), 1, 2 ** 31, 2 ** 63, 2 ** 64 + 1, 10 ** 30])
            s = ' ' * rng.choice([0, 0, 1]) + ('+' if rng.random() < 0.1 else '') + str(k) + ' ' * rng.choice([0, 0, 2])
            r = parse(s)
            rec.mon('parser_accepts')
            rec.case(('str', s), True, classes=['string-sample'])
            if r[0] != 'ok' or not isinstance(r[1], S.Sample) or r[1] != S.Sample(k):
                rec.violation('parser_accepts', 'sample-string', 'create_slice_or_sample(%r) -> %r, expected Sample(%d)' % (s, r[1], k),
                              {'string': s, 'got': repr(r[1])}, exc=r[1] if r[0] == 'raise' else None)
            else:
                for n in (0, 1, rng.randrange(0, 60), rng.randrange(60, 2000)):
                    sel = lazy_indices(r[1], n, min(k, n))
                    bad = sample_defect(sel, k, n)
                    if bad or r[1].count(n) != min(k, n):
                        rec.violation('parser_accepts', 'sample-string-semantics', '%r parsed to %s on %d frames: %s' % (s, r[1], n, bad or 'count %r' % r[1].count(n)),
                                      {'string': s, 'n': n, 'got': sel[:40]})
                        break
        else:
            # malformed
            sub = rng.random()
            word = rng.choice(['a', 'x1', '1.5', '2e3', '0x10', '--1', '1-', 'none', 'NONE', 'nil', '1 2', '*', '1;2', 'one',
                               '3.0', '1.', '.5', '1e2', 'True', 'False', 'null', 'nan', 'inf', '-inf', '0b1', '0o7', '+', '-', '++1', '+-1', '1+', "'1'", '"2"',
                               '(1)', '[1]', '1:2', ':', '1/2', 'N', 'No', 'Non', 'Nonee', 'NoneNone', 'None1', '1None', '-None', '0x', '1L', '1j', '2**3', '1 000'])
            ints = [str(rng.randrange(-50, 50)) for _ in range(6)]
            if sub < 0.25:
                nparts = rng.choice([2, 4, 5, 6])
                s = ','.join(rng.choice(['', 'None', ints[i]]) for i in range(nparts))
                why = 'wrong-part-count'
            elif sub < 0.55:
                parts3 = [rng.choice(['', 'None', ints[i]]) for i in range(3)]
                parts3[rng.randrange(3)] = word
                s = ','.join(parts3)
                why = 'non-integer-part'
            elif sub < 0.75:
                s = rng.choice([word, '', ' ', 'None'])
                why = 'non-integer-sample'
            else:
                s = rng.choice([str(rng.choice([0, 0, -1, -2, -rng.randrange(1, 10 ** 6), -10 ** 30])), '+0', '-0', ' 0', '0 ', ' -3 '])
                why = 'sample-below-one'
            r = parse(s)
            rec.mon('parser_rejects')
            rec.case(('str', s), True, classes=['string-malformed-' + why])
            if r[0] == 'ok':
                rec.violation('parser_rejects', why, 'create_slice_or_sample(%r) accepted malformed text -> %s' % (s, r[1]),
                              {'string': s, 'class': why, 'got': str(r[1])})
            elif not isinstance(r[1], (ValueError, TypeError)):
                rec.violation('parser_rejects', why + '-exception-type', 'create_slice_or_sample(%r) raised %s, not a ValueError/TypeError rejection' % (s, type(r[1]).__name__),
                              {'string': s, 'class': why}, exc=r[1])
    # ---- the option as the command line tools receive it: --frame-slice registered by add_frame_slice_to_argument_parser
    import argparse
    ap = argparse.ArgumentParser(prog='x', add_help=False)
    S.add_frame_slice_to_argument_parser(ap)
    S.add_frame_slice_to_argument_parser(argparse.ArgumentParser(prog='y', add_help=False), help_prefix='P.', use_what=True)
    for i in range(60 if ctx.tier == 'quick' else 600):
        if i == 0:
            argv, denotes, desc = [], ('slice', None, None, None), 'option absent (default: every frame)'
        elif rng.random() < 0.5:
            vals = [rng.choice([None, rng.randrange(-40, 40)]) for _ in range(2)] + [rng.choice([None, rng.randrange(1, 9)])]
            text = ','.join(fmt_part(rng, v) for v in vals)
            argv, denotes, desc = ['--frame-slice=' + text], ('slice',) + tuple(vals), text
        else:
            k = rng.randrange(1, 90)
            argv, denotes, desc = (['--frame-slice', str(k)] if rng.random() < 0.5 else ['--frame-slice=%d' % k]), ('sample', k), str(k)
        rec.mon('option_via_argparse')
        rec.case(('argv', tuple(argv)), True, classes=['option-via-argparse'])
        n = rng.randrange(0, 80)
        try:
            sel = S.create_slice_or_sample(ap.parse_args(argv).frame_slice)
            got = lazy_indices(sel, n, n)
        except (Exception, SystemExit) as e:  # noqa
            rec.violation('option_via_argparse', 'raises', '--frame-slice %s raised %s' % (desc, type(e).__name__), {'argv': argv}, exc=e if isinstance(e, Exception) else None)
            continue
        if denotes[0] == 'slice':
            bad = got != list(range(n))[denotes[1]:denotes[2]:denotes[3]]
        else:
            bad = sample_defect(got, denotes[1], n) is not None
        if bad:
            rec.violation('option_via_argparse', 'selection', '%r on %d frames selects %r' % (argv, n, got[:30]), {'argv': argv, 'n': n, 'got': got[:40]})
    # ---- contracts observed
    for name, cnt in contracts.COUNTS.items():
        rec.mon('contract:' + name, cnt)
    for name, msg in contracts.drain():
        rec.violation('contract:' + name, 'breach', msg, {'contract': name, 'message': msg})

LEVEL_TEXT = ('Exhaustive small-scope enumeration of selectors against Python slicing and the sample definition, plus random large '
              'cases and grammar/malformed option strings, with icontract postconditions on the real Slice/Sample methods. '
              'Complete for the stated N; beyond it only sampled.')
LEVEL_NOTE = 'Trusted: Python built-in slice semantics; icontract; the harness enumeration. Not a proof for n > N.'
TECHNIQUE = 'runtime monitoring: exhaustive small-scope differential against Python slicing + icontract postconditions on the live classes'
