"""C11 Conversion to LAS keeps exactly the selected frames, channels and values."""
import os
from fractions import Fraction

from tdv.core.findings import classifier

ID = 'C11'
TITLE = 'Conversion to LAS keeps exactly the selected frames, channels and values'
NATIVE = 'plain'
NEEDS = ('icontract',)
RULE = ('A case is one conversion: a generated RP66V1 / LIS / BIT source (independent encoders, random physical layout) x one frame selector '
        '(Slice with absent / negative / beyond-the-end parts and steps 1..n, or Sample(N)) x channel subset (all, random subset, subset '
        'without the X axis, unknown names) x reduction x field width x decimal format, run through the real single-file converter.  '
        'Per shard a few sources are long logs (128..1100 frames) or hold more than ten log passes; a third of the RP66V1 sources draw '
        'their names from a small shared pool; selectors include bounds beyond 2^31 / 2^63.  '
        'Every LAS written is read by an independent tokenizer (and by LASRead for readability) and compared with the model: one file '
        'per log pass, rows = selected frames, columns = X + requested channels, values within print precision, STRT/STOP/STEP = first X, '
        'last X, mean spacing of the rows written.  Distinct by (source bytes, options); non-trivial = step > 1 or a sample smaller '
        'than the frame count, together with a proper channel subset.')
ASSUMPTIONS = [
    'selectors that select no frame are not generated (as in C04)',
    'for Sample(N) only what the property states is asserted: at most N rows, a strictly increasing subsequence of the source frames beginning with the first',
    'RP66V1 sources carry a populated defining ORIGIN (CREATION-TIME, well attributes) and FILE-HEADER ID, which the LAS header needs; no encrypted records',
    'BIT values are compared with the exact IBM value within 2e-7 relative (the 6e-8 decoder error is finding F10 of C13, not counted twice)',
    'value tolerance: half a unit of the last printed decimal, plus 2.1*u*sum|x| for mean/median of multi-valued channels (u = unit roundoff of the channel type)',
    'a share of the conversions (RP66V1, BIT) is handed the selector object and the channel set object of the previous conversion, as the '
    'directory drivers do for every file of a batch; the expected columns are computed from the names the harness put into that set',
    'field widths 2..32; float formats .Nf, .N, .Ng, .Ne with N in 0..15 ("every decimal format" is read as every format of that family)',
    'LIS: channels are requested by the mnemonic as the LIS tools print it; the absent value is not substituted',
]
MECHANISMS = [
    ('TotalDepth.RP66V1.ToLAS', '_write_array_section_to_las'), ('TotalDepth.RP66V1.ToLAS', '_add_start_stop_step_to_dictionary'),
    ('TotalDepth.RP66V1.ToLAS', 'single_rp66v1_file_to_las'),
    ('TotalDepth.LIS.ToLAS', 'write_las_file'), ('TotalDepth.LIS.ToLAS', 'single_lis_file_to_las'),
    ('TotalDepth.BIT.ToLAS', 'bit_frame_array_to_las_file'), ('TotalDepth.BIT.ToLAS', 'single_bit_path_to_las_path'),
    ('TotalDepth.LAS.core.WriteLAS', 'write_array_section_data_to_las'),
    ('TotalDepth.util.bin_file_type', 'binary_file_type_from_path'),
]
REQUIRED_MONITORS = ['one_las_per_log_pass', 'rows_are_selected_frames', 'columns_are_x_plus_requested', 'values_within_print_precision',
                     'start_stop_step', 'readable_by_LASRead', 'only_expected_files_written', 'contract:Slice.indices']
MIN_NONTRIVIAL = {'quick': 800, 'thorough': 4000}
NSHARDS = 16
SOURCES = {'quick': 100, 'thorough': 500}          # per shard
SELECTORS = {'quick': 4, 'thorough': 5}
TIMEOUT_S = {'quick': 400, 'thorough': 3400}
FORMATS = ['rp66v1'] * 8 + ['bit'] * 4 + ['lis'] * 4


def plan(tier, seed):
    return [{'fmt': FORMATS[i], 'sources': SOURCES[tier], 'selectors': SELECTORS[tier]} for i in range(NSHARDS)]


# ---------------------------------------------------------------------------------------------- selectors
def random_selector(rng, n, negative=False):
    """-> (kind, args) selecting at least one of n frames.  negative: also reversed selections (negative step)."""
    if negative and rng.random() < 0.18:
        for _ in range(20):
            a = rng.choice([None, None, -1, n - 1, rng.randrange(-n - 2, n + 2)])
            b = rng.choice([None, None, 0, -n - 1, rng.randrange(-n - 2, n + 3)])
            c = -rng.choice([1, 1, 1, 2, 3, rng.randrange(1, n + 2)])
            if len(range(n)[slice(a, b, c)]) >= 1:
                return 'slice', (a, b, c)
    for _ in range(40):
        if rng.random() < 0.3:
            k = rng.choice([1, 2, 3, max(1, n // 2), max(1, n - 1), n, n + 1, 2 * n + 3, rng.randrange(1, 2 * n + 2)])
            return 'sample', (k,)
        a = rng.choice([None, None, 0, 1, 2, rng.randrange(-n - 2, n + 2)])
        b = rng.choice([None, None, n, n - 1, n + 5, rng.randrange(-n - 2, n + 3)])
        c = rng.choice([None, 1, 1, 2, 2, 3, 4, 5, 7, max(1, n - 1), n + 1, rng.randrange(1, n + 2)])
        # bounds far outside the log (as a user writes "everything from / up to"): beyond 32 and 64 bit integers
        if rng.random() < 0.04:
            b = rng.choice([2 ** 31, 2 ** 63, 10 ** 30])
        if rng.random() < 0.03:
            a = rng.choice([-2 ** 31, -2 ** 63 - 1, -10 ** 30])
        if len(range(n)[slice(a, b, c)]) >= 1:
            return 'slice', (a, b, c)
    return 'slice', (None, None, None)


def make_selector(S, kind, args):
    return S.Sample(*args) if kind == 'sample' else S.Slice(*args)


def expected_indices(kind, args, n):
    if kind == 'slice':
        return list(range(n)[slice(*args)])
    return None     # sample: weaker oracle


def random_channels(rng, names, x_name, all_names=()):
    """names: all channel names of the log pass in order (X first).  -> requested list (possibly empty = all)."""
    r = rng.random()
    others = [nm for nm in names if nm != x_name]
    if r < 0.3 or not others:
        return []
    if r < 0.6:
        k = rng.randrange(1, len(others) + 1)
        return rng.sample(others, k)
    if r < 0.75:
        return [x_name] + rng.sample(others, rng.randrange(1, len(others) + 1))
    if r < 0.9:
        return rng.sample(others, rng.randrange(1, len(others) + 1)) + _absent_names(list(names) + list(all_names))
    return _absent_names(list(names) + list(all_names))[:1]


def _absent_names(names):
    """Two names that no channel of the file has, under any padding (generated 4-character names may spell anything)."""
    have = {(nm.decode('latin-1') if isinstance(nm, bytes) else str(nm)).strip().upper() for nm in names}
    out = []
    for cand in ('NOSUCH', 'ZZ9', 'ZZ8', 'NOSUCH2', 'ABSENT', 'ZZ7'):
        if cand not in have:
            out.append(cand)
        if len(out) == 2:
            break
    return out


# ---------------------------------------------------------------------------------------------- LAS oracle
def frac(tok):
    return Fraction(tok)


def check_las(rec, fmt, text, exp, w):
    """exp: dict(columns=[str], frames=[[exact Fraction per column] per source frame], tol=[Fraction per column per frame] or scalar,
    indices=list|None, sample_max=int|None, decimals=int, int_cols=set(idx), x=[Fraction per source frame], step_name='STEP')"""
    from tdv.gen import las as glas
    try:
        tok = glas.tokenize(text)
    except Exception as e:
        rec.mon('columns_are_x_plus_requested')
        rec.violation('columns_are_x_plus_requested', 'unparseable', '%s: LAS output not tokenizable: %s' % (fmt, e), dict(w, las=text[:3000]))
        return
    # ---- columns
    rec.mon('columns_are_x_plus_requested')
    heading = [h.strip() for h in (tok.get('A_heading') or [])]
    curves = [c[0].strip() for c in tok.get('C', [])]
    want = [c.strip() for c in exp['columns']]
    if not exp.get('check_heading', True):
        heading = []
    alt = [c.strip() for c in exp['columns_alt']] if exp.get('columns_alt') else None
    if alt is not None and alt != want and curves == alt and (not heading or heading == alt) and all(len(r) == len(alt) for r in tok['rows']):
        # the request named channels without their padding: matching them all the same is as good a reading of "the channels
        # requested" as matching none, provided curve section, heading and rows agree (values are then not compared)
        rec.add('requests_matched_padding_insensitively')
        return
    if curves != want or (heading and heading != want):
        rec.violation('columns_are_x_plus_requested', 'columns', '%s: curve section %s, ~A heading %s, expected %s (requested %s)' % (fmt, curves, heading, want, w.get('channels')),
                      dict(w, curves=curves, heading=heading, expected=want, kind_of='columns'))
        return
    rows = tok['rows']
    if any(len(r) != len(want) for r in rows):
        bad = next(r for r in rows if len(r) != len(want))
        rec.violation('columns_are_x_plus_requested', 'row-width', '%s: a data row has %d values for %d columns: %s' % (fmt, len(bad), len(want), bad[:8]),
                      dict(w, row=bad, expected=want))
        return
    # ---- rows
    rec.mon('rows_are_selected_frames')
    frames = exp['frames']
    try:
        vals = [[frac(t) for t in r] for r in rows]
    except ValueError:
        badtok = [t for r in rows for t in r if not _isnum(t)][:5]
        rec.violation('values_within_print_precision', 'non-numeric', '%s: non-numeric tokens in the data section: %s' % (fmt, badtok), dict(w, tokens=badtok))
        return

    def row_matches(v, fi):
        return all(abs(v[c] - frames[fi][c]) <= exp['tol'][fi][c] for c in range(len(want)))

    idx = exp['indices']
    if idx is not None:
        if len(vals) != len(idx):
            # which frames were written?  (first-column match against the model, for the witness and the classifiers)
            got = _identify_rows(vals, frames, exp['tol'], increasing=True)
            pred = _defective_selection(w['selector_kind'], tuple(w['selector_args']), len(frames))
            by_formula = len(vals) == len(pred) and all(row_matches(vals[r], pred[r]) for r in range(len(pred)))
            rec.violation('rows_are_selected_frames', 'row-count', '%s: %d rows written, selector %s on %d frames selects %d (written frames %s, expected %s)' % (
                fmt, len(vals), w.get('selector'), len(frames), len(idx), got[:12], idx[:12]),
                          dict(w, written_frames=got, expected_frames=idx, nframes=len(frames), last_formula_frames=pred, rows_match_last_formula=by_formula))
            return
        rec.mon('values_within_print_precision', len(vals) * len(want))
        for r, fi in enumerate(idx):
            if not row_matches(vals[r], fi):
                got = _identify_rows(vals, frames, exp['tol'], increasing=True)
                c = next(c for c in range(len(want)) if abs(vals[r][c] - frames[fi][c]) > exp['tol'][fi][c])
                pred = _defective_selection(w['selector_kind'], tuple(w['selector_args']), len(frames))
                by_formula = len(vals) == len(pred) and all(row_matches(vals[q], pred[q]) for q in range(len(pred)))
                w = dict(w, last_formula_frames=pred, rows_match_last_formula=by_formula)
                kind = 'wrong-frames' if got != idx and None not in got else 'value'
                rec.violation('rows_are_selected_frames' if kind == 'wrong-frames' else 'values_within_print_precision', kind,
                              '%s: row %d column %s is %s, source frame %d has %s (tolerance %s); rows look like source frames %s, expected %s' % (
                                  fmt, r, want[c], rows[r][c], fi, float(frames[fi][c]), float(exp['tol'][fi][c]), got[:12], idx[:12]),
                              dict(w, row=r, column=want[c], printed=rows[r][c], expected=float(frames[fi][c]), tolerance=float(exp['tol'][fi][c]),
                                   written_frames=got, expected_frames=idx, nframes=len(frames)))
                return
        written = idx
    else:
        # Sample(N): at most N rows, strictly increasing subsequence of the source starting with frame 0
        got = None
        for hint in exp.get('sample_hints', []):
            # the real selector's own index list is only a *hint* to disambiguate rows that look alike at the print precision:
            # every hinted row is still verified against the model values
            if len(hint) == len(vals) and all(0 <= h < len(frames) and row_matches(vals[r], h) for r, h in enumerate(hint)):
                got = list(hint)
                break
        if got is None:
            got = _identify_rows(vals, frames, exp['tol'], increasing=True)
        rec.mon('values_within_print_precision', len(vals) * len(want))
        bad = None
        if len(vals) > exp['sample_max'] or len(vals) == 0:
            bad = '%d rows for a sample of %d on %d frames' % (len(vals), exp['sample_max'], len(frames))
        elif None in got:
            bad = 'row %d matches no later source frame' % got.index(None)
        elif got[0] != 0:
            bad = 'first row is source frame %d, not the first' % got[0]
        if bad:
            rec.violation('rows_are_selected_frames', 'sample', '%s: %s (written frames %s)' % (fmt, bad, got[:12]), dict(w, written_frames=got, nframes=len(frames)))
            return
        written = got
    # ---- STRT / STOP / STEP
    if exp.get('skip_start_stop'):
        rec.cls('unevenly spaced X (start/stop not asserted)')
        return
    rec.mon('start_stop_step')
    # a unit with an embedded blank ('0.1 in', legal in RP66V1) pushes its tail into the value field: the number is the last token
    wsec = {m.strip(): (u, (v.split() or [''])[-1]) for m, u, v, d in tok.get('W', [])}
    x = exp['x']
    x_first, x_last = x[written[0]], x[written[-1]]
    facts = {'written_first': written[0], 'written_last': written[-1], 'rows': len(written), 'nframes': len(frames),
             'x_first': float(x_first), 'x_last': float(x_last), 'x_all_first': float(x[0]), 'x_all_last': float(x[-1])}
    # the well section may state start/stop/step in another unit than the X column (LIS: 'optical' units): convert exactly
    ufac = Fraction(1)
    if exp.get('x_unit_factor') is not None and 'STRT' in wsec:
        ufac = exp['x_unit_factor'](wsec['STRT'][0])
        if ufac is None:
            rec.cls('start/stop unit not convertible by the harness (not asserted)')
            return
        facts['unit_factor'] = float(ufac)
        facts['well_unit'] = wsec['STRT'][0]
    x_first, x_last = x_first * ufac, x_last * ufac
    facts.update(x_first=float(x_first), x_last=float(x_last), x_all_first=float(x[0] * ufac), x_all_last=float(x[-1] * ufac))
    for key, want_v in (('STRT', x_first), ('STOP', x_last)):
        if key not in wsec or not _isnum(wsec[key][1]):
            rec.violation('start_stop_step', 'missing', '%s: well section has no numeric %s (%s)' % (fmt, key, wsec.get(key)), dict(w, key=key, well=sorted(wsec), **facts))
            return
        gotv = frac(wsec[key][1])
        if abs(gotv - want_v) > exp['x_tol'](want_v):
            rec.violation('start_stop_step', key, '%s: %s is %s but the %s row written has X %s (rows written: source frames %d..%d of %d)' % (
                fmt, key, wsec[key][1], 'first' if key == 'STRT' else 'last', float(want_v), written[0], written[-1], len(frames)),
                          dict(w, key=key, got=float(gotv), expected=float(want_v), **facts))
            return
    step_name = exp.get('step_name', 'STEP')
    if len(written) > 1:
        want_step = (x_last - x_first) / (len(written) - 1)
        if 'STEP' not in wsec or not _isnum(wsec['STEP'][1]):
            rec.violation('start_stop_step', 'STEP-missing', '%s: well section has no numeric STEP (has %s)' % (fmt, sorted(wsec)), dict(w, key='STEP', well=sorted(wsec), **facts))
            # the BIT converter writes the step under the mnemonic STRP (finding F9b): its value is held to the same standard
            if 'STRP' in wsec and _isnum(wsec['STRP'][1]):
                gotv = frac(wsec['STRP'][1])
                if abs(gotv - want_step) > exp['x_tol'](want_step) + exp['x_tol'](x_last - x_first):
                    rec.violation('start_stop_step', 'STEP', '%s: the step line (STRP) is %s but the mean spacing of the %d rows written is %s' % (fmt, wsec['STRP'][1], len(written), float(want_step)),
                                  dict(w, key='STRP', got=float(gotv), expected=float(want_step), **facts))
            return
        gotv = frac(wsec['STEP'][1])
        if abs(gotv - want_step) > exp['x_tol'](want_step) + exp['x_tol'](x_last - x_first):
            rec.violation('start_stop_step', 'STEP', '%s: STEP is %s but the mean spacing of the %d rows written is %s' % (fmt, wsec['STEP'][1], len(written), float(want_step)),
                          dict(w, key='STEP', got=float(gotv), expected=float(want_step), **facts))


def _hints(S, kind, args, n):
    if kind != 'sample':
        return []
    return [S.Sample(*args).indices(n), _defective_selection('sample', args, n)]


def _isnum(t):
    try:
        Fraction(t)
        return True
    except (ValueError, ZeroDivisionError):
        return False


def _identify_rows(vals, frames, tol, increasing=False):
    """For the witness: which source frame does each written row look like (all columns within tolerance)?"""
    out = []
    start = 0
    for v in vals:
        found = None
        for fi in range(start if increasing else 0, len(frames)):
            if len(v) == len(frames[fi]) and all(abs(v[c] - frames[fi][c]) <= tol[fi][c] for c in range(len(v))):
                found = fi
                break
        out.append(found)
        if increasing and found is not None:
            start = found + 1
    return out


def readable(rec, fmt, path, w):
    from TotalDepth.LAS.core import LASRead
    from tdv.gen import las as glas
    try:
        xcol = [r[0] for r in glas.tokenize(open(path).read())['rows'] if r]
    except Exception:
        xcol = []
    try:
        xnum = [Fraction(t) for t in xcol]
    except (ValueError, ZeroDivisionError):
        xnum = xcol
    if len(set(xnum)) != len(xnum):
        # LASRead refuses duplicate index values by design; a decimal format too coarse for the X spacing is the caller's choice
        rec.cls('x-values-collide-at-print-precision (readability not asserted)')
        return
    rec.mon('readable_by_LASRead')
    try:
        LASRead.LASRead(path)
    except Exception as e:
        text = open(path).read()
        fused = None
        try:
            fused = next((t for r in glas.tokenize(text)['rows'] for t in r if t.count('.') >= 2), None)
        except Exception:
            pass
        rec.violation('readable_by_LASRead', type(e).__name__, '%s: LASRead can not read the converted file: %s' % (fmt, str(e)[:200]),
                      dict(w, las=text[:2000], fused_token=fused), exc=e)


# ---------------------------------------------------------------------------------------------- reductions
def reduce_exact(arr, method):
    """Exact reduction of a numpy array (any shape) -> (Fraction value, Fraction sum of |x|)."""
    flat = [Fraction(x) if not isinstance(x, float) else Fraction(x) for x in arr.flatten().tolist()]
    s = sum(abs(x) for x in flat)
    if method == 'first':
        return flat[0], s
    if method == 'min':
        return min(flat), s
    if method == 'max':
        return max(flat), s
    if method == 'mean':
        return sum(flat) / len(flat), s
    srt = sorted(flat)
    n = len(srt)
    return (srt[n // 2] if n % 2 else (srt[n // 2 - 1] + srt[n // 2]) / 2), s


# ---------------------------------------------------------------------------------------------- per format legs
class LogCapture:
    """Keeps the last messages the converters log (they swallow exceptions and log them)."""
    def __init__(self):
        import logging

        class H(logging.Handler):
            def emit(h, record):
                try:
                    msg = record.getMessage()
                    if record.exc_info and record.exc_info[1] is not None:
                        msg += ' | %s: %s' % (type(record.exc_info[1]).__name__, record.exc_info[1])
                    self.messages.append(msg[:400])
                    del self.messages[:-6]
                except Exception:
                    pass
        self.messages = []
        logging.getLogger().addHandler(H(level=logging.ERROR))

    def take(self):
        out, self.messages = list(self.messages), []
        return out


class OpenAudit:
    """M5: which files does the conversion open for writing?"""
    def __init__(self):
        import sys
        self.active = False
        self.paths = []
        sys.addaudithook(self._hook)

    def _hook(self, event, args):
        if self.active and event == 'open':
            path, mode = args[0], args[1]
            if isinstance(mode, str) and any(c in mode for c in 'wax+') and isinstance(path, (str, bytes)):
                self.paths.append(os.fsdecode(path))


def decimals_of(fmt):
    return int(fmt[1:-1]) if fmt[-1] in 'fge' else int(fmt[1:])


FLOAT_FORMATS = ['.0f', '.1f', '.3f', '.3f', '.3f', '.6f', '.8f', '.3', '.5', '.3g', '.6g', '.4e', '.2e', '.12f', '.15g', '.0e', '.10f']
NAME_POOL = [b'DEPT', b'TIME', b'GR', b'TENS', b'CALI', b'RHOB', b'NPHI', b'SP', b'ILD', b'DT', b'TDEP', b'ETIM']     # names shared between passes / files


class History:
    """The caller's objects of the previous conversion: a batch of conversions shares one selector object and one channel set
    (that is how the directory drivers call the converters), so a share of the conversions is given the *same objects* again."""
    def __init__(self):
        self.sel = None       # (kind, args, object)
        self.chans = None     # (list, set object)

    def selector(self, rng, S, kind, args, ok):
        if self.sel is not None and rng.random() < 0.3 and ok(self.sel[0], self.sel[1]):
            return self.sel[0], self.sel[1], self.sel[2], True
        obj = make_selector(S, kind, args)
        self.sel = (kind, args, obj)
        return kind, args, obj, False

    def channels(self, rng, make):
        if self.chans is not None and rng.random() < 0.3:
            return self.chans[0], self.chans[1], True
        chans = make()
        self.chans = (chans, set(chans))
        return chans, self.chans[1], False


def print_tol(fmt, v):
    """Half a unit of the last digit that the float format prints for the exact value v (Fraction)."""
    if fmt.endswith('f'):
        return Fraction(1, 2 * 10 ** decimals_of(fmt))
    n = decimals_of(fmt)
    sig = n + 1 if fmt.endswith('e') else max(n, 1)     # '.4e': 5 significant digits; '.3' / '.3g': 3
    if v == 0:
        return Fraction(0)
    a = abs(v)
    e10 = 0
    while a >= 10:
        a /= 10
        e10 += 1
    while a < 1:
        a *= 10
        e10 -= 1
    return Fraction(10) ** (e10 - sig + 1) / 2


def run_rp66v1(ctx, p, audit):
    import numpy as np
    from TotalDepth.RP66V1 import ToLAS
    from TotalDepth.common import Slice as S
    from tdv.gen import dlis, dlis_convertible
    rec, rng = ctx.rec, ctx.rng
    tmp = os.environ['VERIF_SHARD_TMP']
    hist = History()
    for si in range(p['sources']):
        # a third of the sources draw their channel / frame type names from a small pool: the same names then recur in other passes
        # and other files (as DEPT / GR / TENS do in practice), sometimes as the X axis of one pass and an ordinary channel of another
        pool = NAME_POOL if rng.random() < 0.3 else None
        special = {7: 'long', 23: 'many-pass'}.get(si % 50)
        if special == 'long':
            # a log longer than any per-call buffer and than one byte of frame number: 128 .. 1100 frames, few channels
            # beyond 2048 rows: longer than any block of rows a writer may buffer (by the shard's number rather than by chance, so that
            # the class is there at every seed however the random stream moves)
            rng.random()
            very_long = ctx.shard % 3 == 0
            for _ in range(30):
                lrs, model = dlis_convertible.convertible_file(rng, max_frames=2600 if very_long else rng.choice([200, 400, 1100]), max_logical_files=1, max_types=1,
                                                               max_channels=3, name_pool=pool, min_frames=2049 if very_long else 2)
                if max(len(ft.frames) for lf in model.logical_files for ft in lf.frame_types) >= (2049 if very_long else 128):
                    break
        elif special == 'many-pass':
            # more than ten log passes in one file (output names and result counts with two digits)
            for _ in range(80):
                lrs, model = dlis_convertible.convertible_file(rng, max_frames=5, max_logical_files=12, max_types=3, max_channels=3, name_pool=pool)
                if sum(len(lf.frame_types) for lf in model.logical_files) >= 11:
                    break
        else:
            # a tenth of the non-first channels have a degenerate dimension list: one value per frame at rank 2 ([1, 1]), a column
            # ([3, 1]), rank 3 with unit extents - valid RP66V1, and "one value" is then not "rank 1"
            from tdv.gen import logpass as _LPG
            keep = (_LPG.BIG_DIMS_P, _LPG.BIG_DIMS)
            _LPG.BIG_DIMS_P, _LPG.BIG_DIMS = 0.1, ((1, 1), (1, 1), (3, 1), (1, 4), (1, 1, 1), (1, 7, 1), (2, 1, 2))
            try:
                lrs, model = dlis_convertible.convertible_file(rng, max_frames=rng.choice([6, 20, 45]), name_pool=pool)
            finally:
                _LPG.BIG_DIMS_P, _LPG.BIG_DIMS = keep
        data, phys = dlis.write_file_safe(rng, lrs)
        src = os.path.join(tmp, 's%d.dlis' % si)
        with open(src, 'wb') as f:
            f.write(data)
        passes = [(lfi, ft) for lfi, lf in enumerate(model.logical_files) for ft in lf.frame_types]
        for k in range(p['selectors']):
            # one selector for the whole file: chosen to select >= 1 frame of a random pass, must then select >= 1 frame of every pass
            for _ in range(30):
                kind, args = random_selector(rng, len(rng.choice(passes)[1].frames), negative=True)
                if kind == 'sample' or all(len(range(len(ft.frames))[slice(*args)]) >= 1 for _, ft in passes):
                    break
            else:
                kind, args = 'slice', (None, None, None)
            if special == 'long' and k == 0:
                kind, args = 'slice', (None, None, None)        # the long log is written whole at least once
            kind, args, sel_obj, sel_again = hist.selector(rng, S, kind, args, lambda k_, a_: k_ == 'sample' or all(
                len(range(len(ft.frames))[slice(*a_)]) >= 1 for _, ft in passes))
            lfi0, ft0 = rng.choice(passes)
            names0 = [c.ident for c in ft0.channels]
            chans, chan_set, set_again = hist.channels(rng, lambda: random_channels(rng, names0, names0[0], [c.ident for _, ft in passes for c in ft.channels]))
            method = rng.choice(['first', 'first', 'mean', 'median', 'min', 'max'])
            width = rng.choice([8, 12, 16, 16, 20, 24] * 3 + [2, 4, 6, 32])
            ffmt = rng.choice(FLOAT_FORMATS)
            out_dir = os.path.join(tmp, 'o%d_%d' % (si, k))
            path_out = os.path.join(out_dir, 's%d.dlis' % si)
            w = {'format': 'rp66v1', 'selector': '%s%s' % (kind, args), 'selector_kind': kind, 'selector_args': list(args), 'channels': chans,
                 'reduction': method, 'field_width': width, 'float_format': ffmt, 'source': data if len(data) < 3000 else None, 'layout': phys.layout,
                 'history': {'selector_object_of_previous_conversion': sel_again, 'channel_set_object_of_previous_conversion': set_again}}
            audit.paths, audit.active = [], True
            try:
                res = ToLAS.single_rp66v1_file_to_las(src, method, path_out, sel_obj, chan_set, width, ffmt)
            except Exception as e:
                audit.active = False
                rec.mon('one_las_per_log_pass')
                rec.violation('one_las_per_log_pass', 'raised', 'rp66v1: conversion raised %s: %s' % (type(e).__name__, str(e)[:200]), w, exc=e)
                continue
            audit.active = False
            rec.mon('one_las_per_log_pass')
            expect_files = {os.path.join(out_dir, 's%d_%d_%s.las' % (si, lfi, ft.name[2].decode('ascii'))): (lfi, ft) for lfi, ft in passes}
            got_files = sorted(os.path.join(dp, f) for dp, _, fs in os.walk(out_dir) for f in fs) if os.path.isdir(out_dir) else []
            if res.exception or res.ignored or res.las_count != len(passes) or sorted(expect_files) != got_files:
                rec.violation('one_las_per_log_pass', 'file-set', 'rp66v1: result %s, files %s, expected %d LAS files %s' % (
                    res._replace(time=0.0), [os.path.basename(g) for g in got_files], len(passes), [os.path.basename(e) for e in sorted(expect_files)]),
                              dict(w, result=repr(res._replace(time=0.0)), got=[os.path.basename(g) for g in got_files]))
                _rm(out_dir)
                continue
            rec.mon('only_expected_files_written')
            extra = sorted(set(os.path.abspath(x) for x in audit.paths) - set(os.path.abspath(x) for x in expect_files))
            if extra:
                rec.violation('only_expected_files_written', 'extra-writes', 'rp66v1: conversion opened for writing %s' % extra[:4], dict(w, extra=extra))
            d = decimals_of(ffmt)
            for path, (lfi, ft) in sorted(expect_files.items()):
                names = [c.ident for c in ft.channels]
                n = len(ft.frames)
                req = set(chans)
                cols = [ci for ci, nm in enumerate(names) if ci == 0 or not req or nm in req]
                frames, tols = [], []
                for fr in ft.frames:
                    row, trow = [], []
                    for ci in cols:
                        ch = ft.channels[ci]
                        v, sabs = reduce_exact(fr.values[ci], method)
                        isint = not ch.dtype.startswith('float')
                        u = Fraction(1, 2 ** 53) if (isint or ch.dtype == 'float64') else Fraction(1, 2 ** 24)
                        extra_tol = Fraction(21, 10) * u * sabs if method in ('mean', 'median') and ch.count > 1 else 0
                        row.append(v)
                        trow.append((Fraction(1, 2) if isint else print_tol(ffmt, v)) + extra_tol + abs(v) * Fraction(1, 10 ** 15))
                    frames.append(row)
                    tols.append(trow)
                xs = [Fraction(float(fr.values[0].flatten()[0])) for fr in ft.frames]
                exp = {'columns': [names[ci] for ci in cols], 'frames': frames, 'tol': tols, 'indices': expected_indices(kind, args, n),
                       'sample_max': args[0] if kind == 'sample' else None, 'x': xs,
                       'sample_hints': _hints(S, kind, args, n),
                       'x_tol': lambda v: abs(v) * Fraction(1, 10 ** 6) + Fraction(1, 10 ** 9)}
                ww = dict(w, logical_file=lfi, frame_type=ft.name[2].decode('ascii'), nframes=n, channel_names=names,
                          channel_types=[c.dtype for c in ft.channels], dims=[list(c.dims) for c in ft.channels])
                with open(path) as f:
                    text = f.read()
                check_las(rec, 'rp66v1', text, exp, ww)
                readable(rec, 'rp66v1', path, ww)
            sel_n = len(ft0.frames)
            nt = ((kind == 'slice' and abs(args[2] or 1) > 1) or (kind == 'sample' and args[0] < sel_n)) and bool(chans) and len(set(chans) & set(names0[1:])) < len(names0) - 1
            rec.case((data, kind, args, tuple(chans), method, width, ffmt), nt,
                     classes=['rp66v1', 'selector:' + kind, 'channels:' + ('all' if not chans else 'subset'), 'reduction:' + method] +
                             (['multi-dimensional'] if any(c.count > 1 for _, ft in passes for c in ft.channels) else []) +
                             (['multi-pass'] if len(passes) > 1 else []) + (['passes>=11'] if len(passes) >= 11 else []) +
                             (['frames>=128'] if any(len(ft.frames) >= 128 for _, ft in passes) else []) +
                             (['frames>=1024'] if any(len(ft.frames) >= 1024 for _, ft in passes) else []) + (['frames>=2049'] if any(len(ft.frames) >= 2049 for _, ft in passes) else []) +
                             (['names-from-shared-pool'] if pool else []) +
                             (['history:selector-object-reused'] if sel_again else []) + (['history:channel-set-object-reused'] if set_again else []) +
                             (['width<=6'] if width <= 6 else []) + (['selector:bound-beyond-2^31'] if kind == 'slice' and any(isinstance(a_, int) and abs(a_) >= 2 ** 31 for a_ in args) else []),
                     sample={'format': 'rp66v1', 'passes': [(lfi, ft.name[2].decode('ascii'), len(ft.frames), [c.ident for c in ft.channels]) for lfi, ft in passes],
                             'selector': w['selector'], 'channels': chans, 'reduction': method, 'width': width, 'float_format': ffmt})
            _rm(out_dir)
        os.remove(src)


def run_bit(ctx, p, audit):
    from TotalDepth.BIT import ToLAS
    from TotalDepth.common import Slice as S
    from tdv.gen import bit as gbit
    rec, rng = ctx.rec, ctx.rng
    tmp = os.environ['VERIF_SHARD_TMP']
    hist = History()
    for si in range(p['sources'] * 2):
        for _ in range(50):
            if si % 50 == 23:
                # more than ten log passes in one file (the output names carry the pass number)
                data, model = gbit.random_file(rng, passes=rng.choice([11, 12, 14]), max_block=8, max_blocks=2)
            else:
                data, model = gbit.random_file(rng, max_block=rng.choice([4, 16, 64]), max_blocks=rng.choice([2, 4, 8]))
            if all(pm.frames >= 1 for pm in model.passes):
                break
        else:
            continue
        src = os.path.join(tmp, 's%d.bit' % si)
        with open(src, 'wb') as f:
            f.write(data)
        passes = [pm for pm in model.passes]
        for k in range(p['selectors']):
            pm0 = rng.choice(passes)
            for _ in range(30):
                kind, args = random_selector(rng, max(1, pm0.frames), negative=True)
                if kind == 'sample' or all(len(range(pm.frames)[slice(*args)]) >= 1 for pm in passes):
                    break
            else:
                kind, args = 'slice', (None, None, None)
            kind, args, sel_obj, sel_again = hist.selector(rng, S, kind, args, lambda k_, a_: k_ == 'sample' or all(
                len(range(pm.frames)[slice(*a_)]) >= 1 for pm in passes))
            names0 = ['X   '] + pm0.names_str
            def bit_request():
                # BIT names are four bytes, blank padded; a user (and the command line, which strips its arguments) asks for 'GR'
                r = random_channels(rng, names0, 'X   ', [nm for pm in passes for nm in pm.names_str])
                if r and rng.random() < 0.2:
                    r = [nm.strip() if rng.random() < 0.7 else nm for nm in r]
                return r
            chans, chan_set, set_again = hist.channels(rng, bit_request)
            width = rng.choice([12, 16, 16, 20, 24] * 3 + [4, 32])
            ffmt = rng.choice(FLOAT_FORMATS[1:])
            out_dir = os.path.join(tmp, 'o%d_%d' % (si, k))
            path_out = os.path.join(out_dir, 's%d.bit' % si)
            w = {'format': 'bit', 'selector': '%s%s' % (kind, args), 'selector_kind': kind, 'selector_args': list(args), 'channels': chans,
                 'field_width': width, 'float_format': ffmt, 'source': data if len(data) < 3000 else None,
                 'passes': [(pm.frames, pm.names_str) for pm in passes],
                 'history': {'selector_object_of_previous_conversion': sel_again, 'channel_set_object_of_previous_conversion': set_again}}
            audit.paths, audit.active = [], True
            try:
                res = ToLAS.single_bit_path_to_las_path(src, 'first', path_out, sel_obj, chan_set, width, ffmt)
            except Exception as e:
                audit.active = False
                rec.mon('one_las_per_log_pass')
                rec.violation('one_las_per_log_pass', 'raised', 'bit: conversion raised %s: %s' % (type(e).__name__, str(e)[:200]), w, exc=e)
                continue
            audit.active = False
            rec.mon('one_las_per_log_pass')
            expect_files = {'%s_%04d.las' % (path_out, i): pm for i, pm in enumerate(passes)}
            got_files = sorted(os.path.join(dp, f) for dp, _, fs in os.walk(out_dir) for f in fs) if os.path.isdir(out_dir) else []
            if res.exception or res.ignored or res.las_count != len(passes) or sorted(expect_files) != got_files:
                rec.violation('one_las_per_log_pass', 'file-set', 'bit: result %s, files %s, expected %d LAS files' % (
                    res._replace(time=0.0), [os.path.basename(g) for g in got_files], len(passes)),
                              dict(w, result_exception=bool(res.exception), result_ignored=bool(res.ignored), las_count=res.las_count,
                                   got=[os.path.basename(g) for g in got_files], frames_selected=[len(expected_indices(kind, args, pm.frames) or []) if kind == 'slice' else min(args[0], pm.frames) for pm in passes]))
                _rm(out_dir)
                continue
            rec.mon('only_expected_files_written')
            extra = sorted(set(os.path.abspath(x) for x in audit.paths) - set(os.path.abspath(x) for x in expect_files))
            if extra:
                rec.violation('only_expected_files_written', 'extra-writes', 'bit: conversion opened for writing %s' % extra[:4], dict(w, extra=extra))
            d = decimals_of(ffmt)
            for path, pm in sorted(expect_files.items()):
                names = ['X   '] + pm.names_str
                req = set(chans)
                cols = [ci for ci, nm in enumerate(names) if ci == 0 or not req or nm in req]
                cols_loose = [ci for ci, nm in enumerate(names) if ci == 0 or not req or nm in req or nm.strip() in req]
                xs = [Fraction(pm.x_exact(i)) for i in range(pm.frames)]
                chvals = [None] + [[Fraction(v) for v in pm.values(c)] for c in range(pm.channels)]
                frames, tols = [], []
                for i in range(pm.frames):
                    row = [xs[i] if ci == 0 else chvals[ci][i] for ci in cols]
                    frames.append(row)
                    tols.append([print_tol(ffmt, v) + abs(v) * Fraction(2, 10 ** 7) + Fraction(1, 10 ** 12) for v in row])
                exp = {'columns': [names[ci] for ci in cols], 'frames': frames, 'tol': tols, 'indices': expected_indices(kind, args, pm.frames),
                       'sample_max': args[0] if kind == 'sample' else None, 'x': xs,
                       'sample_hints': _hints(S, kind, args, pm.frames),
                       'x_tol': lambda v: abs(v) * Fraction(1, 10 ** 6) + Fraction(1, 10 ** 9),
                       'columns_alt': [names[ci] for ci in cols_loose] if cols_loose != cols else None}
                ww = dict(w, nframes=pm.frames, channel_names=names)
                with open(path) as f:
                    text = f.read()
                check_las(rec, 'bit', text, exp, ww)
                readable(rec, 'bit', path, ww)
            nt = ((kind == 'slice' and abs(args[2] or 1) > 1) or (kind == 'sample' and args[0] < pm0.frames)) and bool(chans)
            rec.case((data, kind, args, tuple(chans), width, ffmt), nt,
                     classes=['bit', 'selector:' + kind, 'channels:' + ('all' if not chans else 'subset')] + (['multi-pass'] if len(passes) > 1 else []) +
                             (['passes>=11'] if len(passes) >= 11 else []) + (['frames>=128'] if any(pm.frames >= 128 for pm in passes) else []) +
                             (['history:selector-object-reused'] if sel_again else []) + (['history:channel-set-object-reused'] if set_again else []),
                     sample={'format': 'bit', 'passes': [(pm.frames, pm.names_str) for pm in passes], 'selector': w['selector'], 'channels': chans})
            _rm(out_dir)
        os.remove(src)


def run_lis(ctx, p, audit):
    from TotalDepth.LIS import ToLAS
    from TotalDepth.common import Slice as S
    from tdv.gen import lis as glis
    rec, rng = ctx.rec, ctx.rng
    tmp = os.environ['VERIF_SHARD_TMP']
    hist = History()
    for si in range(p['sources'] * 2):
        for _ in range(20):
            lay = glis.random_layout(rng, allow_be=False)
            data, fm = glis.random_file(rng, allow_be=False, layout=lay)
            cons_at = [e[0] for e in fm.index if e[2] == b'CONS']
            if cons_at and max(cons_at) > min([e[0] for e in fm.index if e[3] == 'dfsr'] or [-1]):
                # the converter starts a new output file at every CONS table (its documented notion of a logical file); a CONS table
                # after the data would give a header-only LAS: not the subject of this property.  CONS tables ahead of the first
                # log pass only add well / parameter lines and are converted like any other file.
                rec.cls('lis file with a CONS table after its first format specification skipped')
                continue
            if cons_at:
                rec.cls('lis file with CONS tables ahead of its first log pass')
            if any(lp.indirect and any(ch.mnem.strip() == b'X' for ch in lp.channels) for lp in fm.logpasses):
                continue    # the converter names the implied X axis 'X': a recorded channel of that name would collide
            if fm.logpasses and all(lp.total >= 1 for lp in fm.logpasses):
                break
        else:
            continue
        src = os.path.join(tmp, 's%d.lis' % si)
        with open(src, 'wb') as f:
            f.write(data)
        passes = fm.logpasses
        for k in range(p['selectors']):
            lp0 = rng.choice(passes)
            for _ in range(30):
                kind, args = random_selector(rng, lp0.total)
                if kind == 'sample' or all(len(range(lp.total)[slice(*args)]) >= 1 for lp in passes):
                    break
            else:
                kind, args = 'slice', (None, None, None)
            kind, args, sel_obj, sel_again = hist.selector(rng, S, kind, args, lambda k_, a_: k_ == 'sample' or (
                (a_[2] is None or a_[2] > 0) and all(len(range(lp.total)[slice(*a_)]) >= 1 for lp in passes)))
            mn0 = [ch.mnem.decode('ascii') for ch in lp0.channels]
            chans = random_channels(rng, (['X   '] if lp0.indirect else []) + mn0, 'X   ' if lp0.indirect else mn0[0],
                                    [ch.mnem.decode('ascii') for lp in passes for ch in lp.channels])
            method = rng.choice(['first', 'first', 'mean', 'max'])
            width = rng.choice([16, 16, 20, 24])
            ffmt = rng.choice(['.3f', '.3f', '.6f'])
            out_dir = os.path.join(tmp, 'o%d_%d' % (si, k))
            path_out = os.path.join(out_dir, 's%d.lis' % si)
            w = {'format': 'lis', 'selector': '%s%s' % (kind, args), 'selector_kind': kind, 'selector_args': list(args), 'channels': chans,
                 'reduction': method, 'field_width': width, 'float_format': ffmt, 'layout': fm.layout.describe(),
                 'passes': [{'frames': lp.total, 'records': len(lp.frames_per_record), 'indirect_x': lp.indirect, 'channels': [(ch.mnem.decode('ascii'), ch.rc, ch.samples, ch.bursts) for ch in lp.channels]} for lp in passes]}
            audit.paths, audit.active = [], True
            audit.log.take()
            try:
                res = ToLAS.single_lis_file_to_las(src, method, path_out, sel_obj, set(chans), width, ffmt)
            except Exception as e:
                audit.active = False
                rec.mon('one_las_per_log_pass')
                rec.violation('one_las_per_log_pass', 'raised', 'lis: conversion raised %s: %s' % (type(e).__name__, str(e)[:200]), w, exc=e)
                continue
            audit.active = False
            rec.mon('one_las_per_log_pass')
            got_files = sorted(os.path.join(dp, f) for dp, _, fs in os.walk(out_dir) for f in fs) if os.path.isdir(out_dir) else []
            if res.exception or res.ignored or res.las_count != len(passes) or len(got_files) != len(passes):
                rec.violation('one_las_per_log_pass', 'file-set', 'lis: result exception=%s ignored=%s las_count=%d, %d files, expected %d LAS files (one per log pass)' % (
                    res.exception, res.ignored, res.las_count, len(got_files), len(passes)),
                              dict(w, result_exception=bool(res.exception), result_ignored=bool(res.ignored), las_count=res.las_count, nfiles=len(got_files), npasses=len(passes),
                                   logged=audit.log.take()))
                if res.exception or not got_files:
                    _rm(out_dir)
                    continue
            rec.mon('only_expected_files_written')
            extra = sorted(set(os.path.abspath(x) for x in audit.paths) - set(os.path.abspath(x) for x in got_files))
            if extra:
                rec.violation('only_expected_files_written', 'extra-writes', 'lis: conversion opened for writing %s' % extra[:4], dict(w, extra=extra))
            d = decimals_of(ffmt)
            for path, lp in zip(got_files, passes):
                mn = [ch.mnem.decode('ascii') for ch in lp.channels]
                names = (['X   '] if lp.indirect else []) + mn
                req = set(chans)
                # columns: one per channel value (sub-channel), named by the channel mnemonic
                cols = []   # (name, channel index or None for implied X, sub index)
                if lp.indirect:
                    cols.append(('X', None, 0))
                for ci, ch in enumerate(lp.channels):
                    if (ci == 0 and not lp.indirect) or not req or mn[ci] in req or mn[ci].strip() in req:
                        for sc in range(ch.nvalues // (ch.samples * ch.bursts) if hasattr(ch, 'nvalues') else 1):
                            cols.append((mn[ci].strip(), ci, sc))
                frames, tols = [], []
                xs = [Fraction(x) for x in lp.x]
                for fi in range(lp.total):
                    row, trow = [], []
                    for nm, ci, sc in cols:
                        extra = 0
                        if ci is None:
                            row.append(xs[fi])
                        else:
                            cell = lp.matrix[fi][lp.col_start[ci]:lp.col_start[ci] + lp.channels[ci].nvalues]
                            vals = [Fraction(v) for v in cell]
                            if method == 'first':
                                row.append(vals[0])
                            elif method == 'max':
                                row.append(max(vals))
                            else:
                                row.append(sum(vals) / len(vals))
                                # float64 summation error of the mean, rigorous bound (cancelling samples of huge magnitude)
                                extra = Fraction(21, 10) * Fraction(1, 2 ** 53) * sum(abs(x) for x in vals) * len(vals)
                        trow.append(Fraction(1, 2 * 10 ** d) + abs(row[-1]) * Fraction(1, 10 ** 12) + Fraction(1, 10 ** 12) + extra)
                    frames.append(row)
                    tols.append(trow)
                stepped = (kind == 'sample' and args[0] < lp.total) or (kind == 'slice' and abs(args[2] or 1) > 1)
                if lp.indirect and stepped:
                    # implied X of a stepped selection is finding F15 of C06 (wrong after a record boundary): not asserted twice
                    rec.cls('lis implied X under a stepped selection (X column owned by C06/F15, not asserted here)')
                    for trow in tols:
                        trow[0] = Fraction(10) ** 400

                def x_unit_factor(unit_text, _xu=lp.x_units):
                    u = unit_text.encode('ascii', 'replace').ljust(4)[:4]
                    if u == _xu:
                        return Fraction(1)
                    try:
                        return glis.unit_factor(_xu, u)
                    except (KeyError, AssertionError):
                        return None
                exp = {'columns': [c[0] for c in cols], 'frames': frames, 'tol': tols, 'indices': expected_indices(kind, args, lp.total),
                       'x_unit_factor': x_unit_factor, 'sample_hints': _hints(S, kind, args, lp.total),
                       'sample_max': args[0] if kind == 'sample' else None, 'x': xs if lp.indirect or lp.x_even else [f[0] for f in frames],
                       'x_tol': lambda v: abs(v) * Fraction(1, 10 ** 5) + Fraction(1, 10 ** 3), 'check_heading': False}
                ww = dict(w, nframes=lp.total, channel_names=names, indirect_x=lp.indirect, pass_index=passes.index(lp), data_records=len(lp.frames_per_record))
                if not lp.x_even or any(lp.record_gaps):
                    # the LIS index only knows the first X of every record: start/stop are extrapolated, which C06 states to be
                    # meaningful for evenly spaced frames only
                    exp['skip_start_stop'] = True
                with open(path) as f:
                    text = f.read()
                check_las(rec, 'lis', text, exp, ww)
                readable(rec, 'lis', path, ww)
            nt = ((kind == 'slice' and abs(args[2] or 1) > 1) or (kind == 'sample' and args[0] < lp0.total)) and bool(chans)
            rec.case((data, kind, args, tuple(chans), method, width, ffmt), nt,
                     classes=['lis', 'selector:' + kind, 'channels:' + ('all' if not chans else 'subset'), 'x:' + ('implied' if lp0.indirect else 'explicit')] +
                             (['history:selector-object-reused'] if sel_again else []),
                     sample={'format': 'lis', 'passes': w['passes'], 'selector': w['selector'], 'channels': chans})
            _rm(out_dir)
        os.remove(src)


def _rm(d):
    import shutil
    shutil.rmtree(d, ignore_errors=True)


def run_shard(ctx, p):
    from tdv.mon import contracts
    contracts.install_slice_contracts()
    audit = OpenAudit()
    audit.log = LogCapture()
    {'rp66v1': run_rp66v1, 'bit': run_bit, 'lis': run_lis}[p['fmt']](ctx, p, audit)
    for name, cnt in contracts.COUNTS.items():
        ctx.rec.mon('contract:' + name, cnt)
    for name, msg in contracts.drain():
        ctx.rec.violation('contract:' + name, 'breach', msg, {'contract': name, 'message': msg})


# ---------------------------------------------------------------------------------------------- known findings
@classifier('c11_bit_step_mnemonic_strp')
def _c11_strp(v):
    """BIT ToLAS writes the mean spacing under the mnemonic STRP instead of STEP (the repository tests pin the text)."""
    w = v.get('witness') or {}
    return (v['monitor'] == 'start_stop_step' and v['kind'] == 'STEP-missing' and w.get('format') == 'bit'
            and sorted(w.get('well') or []) == ['STOP', 'STRP', 'STRT'])


def _defective_selection(kind, args, n):
    """Frames selected by slice(first, last()+1, step) with the repository's Slice.last()/Sample.last() formulas (finding F8)."""
    if kind == 'slice':
        a, b, c = slice(*args).indices(n)
        last = n - 1 if n < b else c * (b // c) - 1
        return list(range(n))[a:last + 1:c]
    k = args[0]
    last = n - 1 if k >= n else n - k
    step = 1 if k >= n else n // k
    return list(range(n))[0:last + 1:step]


@classifier('c11_lis_rows_by_last_formula')
def _c11_lis_rows(v):
    """LIS ToLAS loads slice(first, last()+1, step): rows differ from the Python slice exactly as that formula predicts."""
    w = v.get('witness') or {}
    if w.get('format') != 'lis' or v['monitor'] != 'rows_are_selected_frames' or v['kind'] not in ('row-count', 'wrong-frames'):
        return False
    if w.get('selector_kind') != 'slice' or w.get('channels'):
        return False
    pred = _defective_selection('slice', tuple(w['selector_args']), w['nframes'])
    return pred != w.get('expected_frames') and w.get('last_formula_frames') == pred and w.get('rows_match_last_formula') is True


@classifier('c11_lis_channel_subset_raises')
def _c11_lis_channels(v):
    """LIS ToLAS hands the requested channel *names* to LogPass.setFrameSet, which expects channel indexes: any non-empty subset fails."""
    w = v.get('witness') or {}
    return (w.get('format') == 'lis' and v['monitor'] == 'one_las_per_log_pass' and v['kind'] == 'file-set' and bool(w.get('channels'))
            and w.get('result_exception') is True
            and any('list indices must be integers or slices, not str' in m or "'set' object has no attribute 'append'" in m for m in (w.get('logged') or [])))


@classifier('c11_lis_no_column_separator')
def _c11_lis_fused(v):
    """LIS ToLAS writes data values right-justified in the field with no separating blank: a value as wide as the field fuses with its neighbour."""
    w = v.get('witness') or {}
    if w.get('format') != 'lis':
        return False
    if v['monitor'] == 'columns_are_x_plus_requested' and v['kind'] == 'row-width':
        row = w.get('row') or []
        return len(row) < len(w.get('expected') or []) and any(t.count('.') >= 2 for t in row)
    if v['monitor'] == 'readable_by_LASRead' and 'columns but found' in v['msg']:
        return bool(w.get('fused_token')) and w['fused_token'].count('.') >= 2
    return False


@classifier('c11_lis_start_stop_of_whole_pass')
def _c11_lis_whole_pass(v):
    """LIS ToLAS writes STRT/STOP of the whole log pass (and STEP = pass spacing x slice step), not of the rows written."""
    w = v.get('witness') or {}
    if w.get('format') != 'lis' or v['monitor'] != 'start_stop_step' or v['kind'] not in ('STRT', 'STOP'):
        return False
    ref = w.get('x_all_first') if v['kind'] == 'STRT' else w.get('x_all_last')
    moved = (w.get('written_first') != 0) if v['kind'] == 'STRT' else (w.get('written_last') != w.get('nframes', 0) - 1)
    return moved and ref is not None and abs(w['got'] - ref) <= abs(ref) * 1e-5 + 2e-3


@classifier('c11_lis_stop_zero_single_record')
def _c11_lis_stop0(v):
    """LIS ToLAS takes STOP from the file index, which cannot extrapolate a last X for a log pass held in one data record: STOP is 0."""
    w = v.get('witness') or {}
    return (w.get('format') == 'lis' and v['monitor'] == 'start_stop_step' and v['kind'] == 'STOP' and w.get('data_records') == 1
            and w.get('got') == 0 and w.get('expected') != 0)


@classifier('c11_lis_one_las_for_several_log_passes')
def _c11_lis_passes(v):
    """LIS ToLAS groups log passes by CONS tables: a file with several log passes and no CONS table between them gets one LAS file."""
    w = v.get('witness') or {}
    return (w.get('format') == 'lis' and v['monitor'] == 'one_las_per_log_pass' and v['kind'] == 'file-set' and not w.get('channels')
            and w.get('result_exception') is False and w.get('npasses', 0) > 1 and w.get('nfiles') == 1 and w.get('las_count') == 1)


LEVEL_TEXT = ('Generated RP66V1, LIS and BIT sources are converted by the real single-file converters for random selectors, channel subsets, '
              'reductions, widths and formats; every LAS written is re-read by an independent tokenizer and compared with the generator model '
              '(file set, rows, columns, values, STRT/STOP/STEP), with an open() audit hook on the files written and the Slice/Sample contracts live.')
LEVEL_NOTE = 'Trusted: the independent generators and the tokenizer; tolerances as stated in the assumptions. Sampled, not exhaustive.'
TECHNIQUE = 'runtime monitoring: model-based oracle over converter executions (independent encoders + independent LAS tokenizer), audit hook on output files, icontract contracts on selectors'
