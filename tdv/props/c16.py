"""C16 Run-length indexes reproduce the positions they encode."""
import bisect
import io
import itertools
import math
import xml.etree.ElementTree as ET
from fractions import Fraction as Fr

from tdv.core.findings import classifier

ID = 'C16'
TITLE = 'Run-length indexes reproduce the positions they encode'
NATIVE = 'plain'          # LIS.core.Rle and RP66V1.IndexXML import the LIS package
NEEDS = ('icontract',)
RULE = ('Sequences: integer sequences built from runs (stride 0 / negative / large, repeat 0..20), irregular small-alphabet '
        'sequences (equal neighbours), wide random integers, strictly / weakly ascending sequences, float progressions with '
        'relative noise from 1e-17 to 1e-6 (also zero stride and values recorded twice), sequences mapped through a function, a few long '
        'sequences per shard (file positions / frame numbers of 1500..6000 values, regularly sampled float axes of 600..1500 values); a fifth '
        'of the sequences are built by add() with queries between the additions; exhaustively every sequence of length <= L over '
        '{0,1,2,3}.  LIS: record triples (position strictly increasing, frames >= 1 equal and unequal, arbitrary first X); '
        'exhaustively every list of <= M records over gaps {16,48} x frames {1,2,3}.  Every valid index, every negative index, both '
        'out-of-range indices, every stored value and its +-1 neighbours as a query, every frame number.  A sequence is non-trivial '
        'when it has >= 3 values whose consecutive differences are not all equal (needs more than one run) or contains a zero or '
        'negative difference; a triple list when it has >= 2 records.  Distinct by the sequence itself.')
ASSUMPTIONS = [
    'the plain Python list (and bisect on it) is the reference; floats are compared within (n+2)*eps*max|value| ("rounding of one stride", n = sequence length)',
    'largest_le is asserted only for ascending (non-decreasing) sequences; a query below the first value must be refused (ValueError/LookupError), not answered',
    'float queries are placed between stored values, clear of them by more than the float tolerance, below the first, above the last, and on stored values that stand clear of their lower neighbour by more than 64 x the tolerance (a wrong answer there is wrong by about a whole step)',
    'beyond 64 values the tolerance for value(i)/first()/last()/largest_le is capped at a quarter of the smallest non-zero step (never below 8*eps*max|value|): no reading of "rounding of one stride" allows an error of a whole stride',
    'the XML hex form is only used for non-negative ascending integer sequences (file positions); IndexXML has no reader, the expansion datum+i*stride is done here in exact arithmetic',
    'sequences of one numeric type only (all int or all float); bool, None, mixed and non-numeric values are outside the quantifier',
]
MECHANISMS = [
    ('TotalDepth.common.Rle', 'RLEItem.add'), ('TotalDepth.common.Rle', 'RLE.add'),
    ('TotalDepth.common.Rle', 'RLEItem.value'), ('TotalDepth.common.Rle', 'RLEItem.values'),
    ('TotalDepth.common.Rle', 'RLE.largest_le'), ('TotalDepth.common.Rle', 'RLEItem.largest_le'),
    ('TotalDepth.LIS.core.Rle', 'RLEType01.add'), ('TotalDepth.LIS.core.Rle', 'RLEItemType01.add'),
    ('TotalDepth.LIS.core.Rle', 'RLEType01.tellLrForFrame'), ('TotalDepth.LIS.core.Rle', 'RLEItemType01.tellLrForFrame'),
    ('TotalDepth.LIS.core.Rle', 'RLEType01.totalFrames'),
    ('TotalDepth.RP66V1.IndexXML', 'xml_rle_write'),
]
REQUIRED_MONITORS = ['list_by_position', 'list_by_iteration', 'count_first_last', 'index_out_of_range', 'bisect_largest_le',
                     'interleaved_add_query', 'frame_to_record', 'total_frames', 'triples_by_position', 'xml_round_trip',
                     'contract:RLEItem.add', 'contract:RLE.add', 'contract:RLEType01.add']
MIN_NONTRIVIAL = {'quick': 4000, 'thorough': 200000}
TIMEOUT_S = {'quick': 300, 'thorough': 3000}
NSHARDS = 16
N_SEQ = {'quick': 15000, 'thorough': 300000}          # random sequences (all shards together)
N_TRIPLES = {'quick': 4800, 'thorough': 48000}       # random triple lists (all shards together)
N_LONG = {'quick': 3, 'thorough': 12}                # long sequences (thousands of values) per shard
EXH_LEN = {'quick': 5, 'thorough': 7}                # every sequence of length <= L over {0,1,2,3}
EXH_REC = {'quick': 4, 'thorough': 5}                # every record list of length <= M over gaps x frames
EPS = 2.0 ** -52
KNOWN_CAP = 25                                       # instances of one known mechanism recorded per shard; the rest are counted


def plan(tier, seed):
    return [{'part': i, 'parts': NSHARDS, 'n_seq': N_SEQ[tier] // NSHARDS, 'n_triples': N_TRIPLES[tier] // NSHARDS,
             'exh_len': EXH_LEN[tier], 'exh_rec': EXH_REC[tier], 'n_long': N_LONG[tier]} for i in range(NSHARDS)]


# ---------------------------------------------------------------------------------------------- known finding F11
def _items_expand(items):
    out = []
    for d, s, r in items:
        out.extend(d + i * s for i in range(r + 1))
    return out


def _seq_equal(a, b):
    if len(a) != len(b):
        return False
    if any(isinstance(x, float) for x in b):
        t = tol_for([float(x) for x in b])
        return all(isinstance(x, (int, float)) and abs(x - y) <= t for x, y in zip(a, b))
    return a == b


def _f11_values(w):
    """values() trips `assert self.stride != 0` although the stored runs encode the input exactly."""
    items = [tuple(x) for x in w.get('items', [])]
    return (w.get('exc_type') == 'AssertionError' and any(s == 0 and r >= 1 for _, s, r in items)
            and _seq_equal(_items_expand(items), list(w.get('expected_all', [None]))))


def _f11_largest_le(w):
    """largest_le(q) divides by the zero stride of the run it selects (single-value run, or run of equal values)."""
    items = [tuple(x) for x in w.get('items', [])]
    q = w.get('query')
    if w.get('exc_type') != 'ZeroDivisionError' or not items or q is None:
        return False
    k = bisect.bisect_right([d for d, _, _ in items], q)
    if k == 0:
        return False
    d, s, r = items[k - 1]
    return s == 0 and d == q


@classifier('c16_zero_stride')
def _c_zero_stride(v):
    """F11: both symptoms come from RLEItem treating stride == 0 (single-value run, run of equal values) as impossible."""
    if v.get('kind') != 'raises':
        return False
    if v.get('monitor') == 'list_by_iteration':
        return _f11_values(v['witness'])
    if v.get('monitor') == 'bisect_largest_le':
        return _f11_largest_le(v['witness'])
    return False


def _float_floor_one_below(w):
    """largest_le(q) on a float run: index = int((q - datum) // stride) lands one below the true index when q is (within
    rounding) the stored value datum + i*stride, because float floor division of an almost-integer quotient rounds down;
    the run then answers datum + (i-1)*stride, a whole stride below the stored value q.  Recompute exactly that."""
    items = [tuple(x) for x in w.get('items', [])]
    q, want, got = w.get('query'), w.get('expected'), w.get('got_value')
    if not items or not isinstance(q, float) or not isinstance(got, float) or not isinstance(want, float):
        return False
    if w.get('run_for_query'):
        d, s, r = w['run_for_query']          # the witness lists at most 390 runs; the run the query falls into is given separately
    else:
        k = bisect.bisect_right([d for d, _, _ in items], q)
        if k == 0:
            return False
        d, s, r = items[k - 1]
    if not isinstance(d, float) or not isinstance(s, float) or s <= 0 or r < 1 or q > d + s * r:
        return False
    idx = int((q - d) // s)
    if got != d + s * idx or idx + 1 > r:
        return False
    above = d + s * (idx + 1)                      # the stored value the query stands for
    t = 4 * EPS * max(abs(above), abs(q), abs(d))
    return abs(above - q) <= t and abs(above - want) <= t


@classifier('c16_float_largest_le_floor')
def _c_float_floor(v):
    """C16-N1: RLEItem.largest_le on float runs is one stride low for a query equal to a stored value (float floor division)."""
    return v.get('monitor') == 'bisect_largest_le' and v.get('kind') == 'differs' and _float_floor_one_below(v['witness'])


class Reporter:
    """rec.violation with a per-shard cap on instances of an already recognised mechanism and on any one kind."""

    def __init__(self, rec):
        self.rec = rec
        self.known = {}
        self.kinds = {}

    def __call__(self, monitor, kind, msg, witness, exc=None, known_as=None):
        if known_as:
            n = self.known.get(known_as, 0)
            self.known[known_as] = n + 1
            self.rec.add('known_mechanism_instances:' + known_as)
            if n >= KNOWN_CAP:
                self.rec.add('instances_beyond_cap:' + known_as)
                return
        else:
            n = self.kinds.get((monitor, kind), 0)
            self.kinds[(monitor, kind)] = n + 1
            if n >= 20:
                self.rec.add('unrecorded_violations:%s/%s' % (monitor, kind))
                return
        if exc is not None:
            witness = dict(witness, exc_type=type(exc).__name__)
        self.rec.violation(monitor, kind, msg, witness, exc=exc)


# ---------------------------------------------------------------------------------------------- oracle helpers
def tol_for(seq):
    if not seq or not isinstance(seq[0], float):
        return 0
    m = max(abs(x) for x in seq)
    if len(seq) > 1:
        m = max(m, max(abs(b - a) for a, b in zip(seq, seq[1:])))
    return (len(seq) + 2) * EPS * m


def tol_by_position(seq, tol):
    """Tolerance for value(i) / first() / last().  The property allows "rounding of one stride"; (n+2)*eps*max grows with the
    length of the sequence and for long, finely spaced sequences exceeds a whole stride, which no reading of the property
    allows.  Beyond 64 values the tolerance is therefore capped at a quarter of the smallest non-zero step (never below
    8*eps*max, the rounding of evaluating datum + i*stride)."""
    if tol == 0 or len(seq) <= 64:
        return tol
    m = max(abs(x) for x in seq)
    steps = [abs(b - a) for a, b in zip(seq, seq[1:]) if b != a]
    cap = min(steps) / 4 if steps else 0.0
    return max(8 * EPS * m, min(tol, cap))


def same(got, exp, tol):
    if tol == 0:
        return got is not None and not isinstance(got, bool) and got == exp
    return isinstance(got, (int, float)) and not isinstance(got, bool) and abs(got - exp) <= tol


def is_nontrivial(seq):
    if len(seq) < 2:
        return False
    d = [b - a for a, b in zip(seq, seq[1:])]
    return any(x <= 0 for x in d) or (len(seq) >= 3 and len(set(d)) >= 2)


def items_of(r):
    return [(it.datum, it.stride, it.repeat) for it in r.rle_items]


# ---------------------------------------------------------------------------------------------- one sequence
def build_interleaved(rec, rep, R, seq, kind, fn, rng):
    """A history instead of a one-shot build: values are added one at a time and, between additions, the encoding built so
    far is asked by position, by iteration, for its count / last value and (while ascending) for largest_le.  Whatever an
    implementation remembers from a query must not survive the next addition.  Returns the RLE or None."""
    r = R.RLE(fn) if fn else R.RLE()
    exp = []
    asc = True
    every = len(seq) <= 12
    for i, v in enumerate(seq):
        try:
            r.add(v)
        except Exception as e:  # noqa
            rep('interleaved_add_query', 'add-raises', 'RLE.add(%r) raised %s after %r' % (v, type(e).__name__, seq[:i][-8:]), {'seq': seq[:390], 'kind': kind, 'at': i}, exc=e)
            return None
        x = fn(v) if fn else v
        if exp and x < exp[-1]:
            asc = False
        exp.append(x)
        if not (every or rng.random() < 0.3):
            continue
        rec.mon('interleaved_add_query')
        n = len(exp)
        tol = tol_by_position(exp, tol_for(exp))
        w = {'seq': seq[:390], 'kind': kind, 'added_so_far': n, 'items': items_of(r)[:60]}
        js = sorted({0, n - 1, -1, -n, rng.randrange(n), rng.randrange(n) - n})
        bad = None
        try:
            for j in js:
                g = r.value(j)
                if not same(g, exp[j], tol):
                    bad = 'value(%d) -> %r, expected %r' % (j, g, exp[j])
                    break
            if bad is None and r.num_values() != n:
                bad = 'num_values() -> %r, expected %d' % (r.num_values(), n)
            if bad is None and not same(r.last(), exp[-1], tol):
                bad = 'last() -> %r, expected %r' % (r.last(), exp[-1])
            if bad is None and asc and not isinstance(exp[0], float):
                q = exp[rng.randrange(n)] + rng.choice([0, 0, 1, -1])
                k = bisect.bisect_right(exp, q)
                if k:
                    g = r.largest_le(q)
                    if not (isinstance(g, (int, float)) and g == exp[k - 1]):
                        bad = 'largest_le(%r) -> %r, expected %r' % (q, g, exp[k - 1])
            if bad is None and (every or rng.random() < 0.2):
                got = list(itertools.islice(r.values(), n + 3))
                tl = tol_for(exp)
                if len(got) != n or any(not same(g, x, tl) for g, x in zip(got, exp)):
                    bad = 'values() -> %r' % (got[:20],)
        except Exception as e:  # noqa
            rep('interleaved_add_query', 'raises', 'after adding %d of %d values %r a query raised %s' % (n, len(seq), seq[:20], type(e).__name__), w, exc=e)
            return None
        if bad:
            rep('interleaved_add_query', 'differs', 'after adding %d of %d values %r: %s' % (n, len(seq), seq[:20], bad), w)
            return None
    return r


def check_sequence(rec, rep, R, seq, kind, fn=None, queries=True, prebuilt=None):
    """seq: the values handed to create_rle; the oracle is list(map(fn, seq))."""
    exp = [fn(x) for x in seq] if fn else list(seq)
    n = len(exp)
    tol = tol_for(exp)
    try:
        r = prebuilt if prebuilt is not None else R.create_rle(iter(seq), fn) if fn else R.create_rle(iter(seq))
    except Exception as e:  # noqa
        rep('list_by_position', 'create-raises', 'create_rle(%r) raised %s' % (seq[:20], type(e).__name__), {'seq': seq, 'kind': kind}, exc=e)
        return
    items = items_of(r)
    w0 = {'seq': seq[:390], 'n': n, 'kind': kind, 'items': items[:390], 'expected_all': exp[:390]}
    rec.maxi('max_runs', len(items))
    rec.maxi('max_values', n)
    rec.add('values_added', n)
    # count / first / last
    rec.mon('count_first_last')
    nv, fi, la = r.num_values(), r.first(), r.last()
    if nv != n:
        rep('count_first_last', 'num_values', 'num_values()=%r for %d values %r' % (nv, n, seq[:20]), dict(w0, got=nv))
    tolp = tol_by_position(exp, tol)
    if n == 0:
        if fi is not None or la is not None:
            rep('count_first_last', 'empty', 'first()/last() of an empty RLE = %r/%r' % (fi, la), dict(w0, got=[fi, la]))
    else:
        if not same(fi, exp[0], tolp):
            rep('count_first_last', 'first', 'first()=%r expected %r for %r' % (fi, exp[0], seq[:20]), dict(w0, got=fi))
        if not same(la, exp[-1], tolp):
            rep('count_first_last', 'last', 'last()=%r expected %r for %r' % (la, exp[-1], seq[:20]), dict(w0, got=la))
    # by iteration
    rec.mon('list_by_iteration')
    try:
        got = list(itertools.islice(r.values(), n + 5))
    except Exception as e:  # noqa
        w = dict(w0, exc_type=type(e).__name__)
        rep('list_by_iteration', 'raises', 'list(create_rle(%r).values()) raised %s; runs (datum,stride,repeat)=%r' % (
            seq[:20], type(e).__name__, items[:8]), w, exc=e, known_as='F11-values' if _f11_values(w) else None)
    else:
        if len(got) != n or any(not same(g, x, tol) for g, x in zip(got, exp)):
            rep('list_by_iteration', 'differs', 'values() of %r = %r' % (seq[:20], got[:20]), dict(w0, got=got[:60]))
    # by position
    bad = None
    for i in range(n):
        rec.mon('list_by_position', 2)
        for j in (i, i - n):
            try:
                g = r.value(j)
            except Exception as e:  # noqa
                bad = ('raises', j, type(e).__name__, e)
                break
            if not same(g, exp[j], tolp):
                bad = ('differs', j, g, None)
                break
        if bad:
            break
    if bad:
        rep('list_by_position', bad[0], 'create_rle(%r).value(%d) -> %r, expected %r' % (seq[:20], bad[1], bad[2], exp[bad[1]]),
            dict(w0, index=bad[1], got=repr(bad[2]), expected=exp[bad[1]]), exc=bad[3])
    for j in (n, -n - 1, n + 7, -n - 9):
        rec.mon('index_out_of_range')
        try:
            g = r.value(j)
        except IndexError:
            continue
        except Exception as e:  # noqa
            rep('index_out_of_range', 'wrong-exception', 'value(%d) on %d values raised %s' % (j, n, type(e).__name__), dict(w0, index=j), exc=e)
        else:
            rep('index_out_of_range', 'answered', 'value(%d) on %d values returned %r' % (j, n, g), dict(w0, index=j, got=repr(g)))
    # largest_le on ascending sequences
    if queries and n and all(b >= a for a, b in zip(exp, exp[1:])):
        check_largest_le(rec, rep, r, exp, w0, tolp)
    return r


def check_largest_le(rec, rep, r, exp, w0, tol):
    isf = isinstance(exp[0], float)
    qs = []
    if isf:
        # between stored values, clear of both neighbours; below the first; above the last
        for a, b in zip(exp, exp[1:]):
            if b - a > 64 * tol and b - a > 0:
                qs.append(a + (b - a) / 2)
        span = max(1.0, abs(exp[0]), abs(exp[-1]))
        qs += [exp[0] - span, exp[-1] + span]
        # the stored values themselves: "largest stored value not exceeding the query" is then the query (or an equal neighbour).
        # Only values that stand clear of their lower neighbour by far more than the tolerance, so that a wrong answer is
        # wrong by (nearly) a whole step and not a matter of rounding.
        at_stored = [exp[0]] + [b for a, b in zip(exp, exp[1:]) if b - a > 64 * max(tol, EPS * abs(b))]
        # the same questions asked with a whole number given as an int (a depth typed as 1000, a frame time as 2): a query is a
        # number, whatever its Python type
        whole = [int(v) for v in at_stored if v == int(v) and abs(v) < 2 ** 53]
        if len(at_stored) > 60:
            at_stored = at_stored[:20] + at_stored[len(at_stored) // 2 - 10:len(at_stored) // 2 + 10] + at_stored[-20:]
        qs += at_stored
        if whole:
            rec.add('int_typed_queries_on_float_sequences', len(whole[:40]))
            qs += whole[:40]
    else:
        seen = set()
        for x in exp:
            for q in (x - 1, x, x + 1):
                if q not in seen:
                    seen.add(q)
                    qs.append(q)
        if abs(exp[0]) < 2 ** 40 and abs(exp[-1]) < 2 ** 40:
            qs += [exp[0] - 0.5, exp[-1] + 0.5] + [x + 0.5 for x in exp[:3]]
    for q in qs:
        rec.mon('bisect_largest_le')
        k = bisect.bisect_right(exp, q)
        want = exp[k - 1] if k else None
        w = dict(w0, query=q, expected=want)
        try:
            g = r.largest_le(q)
        except (ValueError, LookupError) as e:
            if k:
                rep('bisect_largest_le', 'refused', 'largest_le(%r) on %r refused (%s), expected %r' % (q, exp[:20], type(e).__name__, want), w, exc=e)
        except Exception as e:  # noqa
            w = dict(w, exc_type=type(e).__name__)
            rep('bisect_largest_le', 'raises', 'largest_le(%r) on %r raised %s, expected %s; runs=%r' % (
                q, exp[:20], type(e).__name__, want if k else 'a refusal', w0['items'][:8]), w, exc=e,
                known_as='F11-largest_le' if _f11_largest_le(w) else None)
        else:
            if not k:
                rep('bisect_largest_le', 'answered-below-first', 'largest_le(%r) on %r returned %r (nothing stored is <= query)' % (q, exp[:20], g), dict(w, got=repr(g)))
            elif not same(g, want, tol) and not (not isf and isinstance(g, (int, float)) and g == want):
                all_items = items_of(r)
                kq = bisect.bisect_right([it[0] for it in all_items], q)
                w = dict(w, got=repr(g), got_value=g if isinstance(g, float) else None,
                         run_for_query=list(all_items[kq - 1]) if kq else None)
                rep('bisect_largest_le', 'differs', 'largest_le(%r) on %r = %r, bisect says %r' % (q, exp[:20], g, want), w,
                    known_as='C16-N1-float-floor' if _float_floor_one_below(w) else None)


# ---------------------------------------------------------------------------------------------- XML round trip
def parse_num(s, hexed, isf):
    if hexed:
        if not s.startswith('0x'):
            raise ValueError('hex attribute %r without 0x' % s)
        return int(s[2:], 16)
    return Fr(float(s)) if isf else int(s)


def check_xml(rec, rep, X, IndexXML, r, exp, hexed, w0):
    rec.mon('xml_round_trip')
    isf = bool(exp) and isinstance(exp[0], float)
    f = io.StringIO()
    try:
        with X.XmlStream(f) as xs:
            IndexXML.xml_rle_write(r, 'Seq', xs, hexed)
        doc = f.getvalue()
        root = ET.fromstring(doc.encode('utf-8'))
        if root.tag != 'Seq':
            root = root.find('Seq')
        out = []
        kids = list(root)
        for el in kids:
            if el.tag != 'RLE':
                raise ValueError('unexpected element %r' % el.tag)
            d, s, rp = parse_num(el.get('datum'), hexed, isf), parse_num(el.get('stride'), hexed, isf), int(el.get('repeat'))
            if rp < 0:
                raise ValueError('repeat %d' % rp)
            out.extend(d + i * s for i in range(rp + 1))
        count, rle_len = int(root.get('count')), int(root.get('rle_len'))
    except Exception as e:  # noqa
        rep('xml_round_trip', 'unreadable', 'xml_rle_write(%r, hex=%r) cannot be expanded: %s: %s' % (exp[:20], hexed, type(e).__name__, e),
            dict(w0, hex=hexed, doc=f.getvalue()[:1500]), exc=e)
        return
    tol = tol_for(exp)
    ok = len(out) == len(exp) and all((abs(g - Fr(x)) <= Fr(tol)) if isf else g == x for g, x in zip(out, exp))
    if not ok:
        rep('xml_round_trip', 'differs', 'xml_rle_write -> expand of %r gives %r' % (exp[:20], [float(x) if isf else x for x in out[:20]]),
            dict(w0, hex=hexed, doc=doc[:1500], got=[float(x) if isf else x for x in out[:60]]))
    if count != len(exp) or rle_len != len(kids):
        rep('xml_round_trip', 'counts', 'count=%d rle_len=%d for %d values in %d RLE elements' % (count, rle_len, len(exp), len(kids)),
            dict(w0, hex=hexed, doc=doc[:1500]))


# ---------------------------------------------------------------------------------------------- generators
def gen_stride(rng):
    k = rng.random()
    if k < 0.22:
        return 0
    if k < 0.55:
        return rng.choice([1, -1, 2, -2, 3, -3, 4, 8, 16, 48])
    if k < 0.8:
        return rng.randrange(-200, 201)
    if k < 0.93:
        return rng.choice([1, -1]) * 10 ** rng.randrange(3, 13) + rng.randrange(0, 7)
    return rng.choice([1, -1]) * (2 ** rng.choice([31, 32, 53, 63, 64, 70]) + rng.randrange(-2, 3))


def gen_runs(rng, ascending=None):
    seq = []
    v = rng.choice([0, 0, 1, -5, rng.randrange(-1000, 1000), rng.randrange(-10 ** 12, 10 ** 12)])
    for _ in range(rng.choice([1, 1, 2, 2, 3, 3, 4, 5, 6, 8])):
        s = gen_stride(rng)
        if ascending == 'strict':
            s = abs(s) or rng.randrange(1, 9)
        elif ascending == 'weak':
            s = abs(s)
        rpt = rng.choice([0, 0, 1, 1, 2, 3, 4, 5, rng.randrange(0, 21), rng.randrange(0, 21)])
        for i in range(rpt + 1):
            seq.append(v + i * s)
        v = seq[-1]
        k = rng.random()
        if ascending:
            jump = rng.choice([0 if ascending == 'weak' else 1, 1, 2, s, s + 1, 2 * s, rng.randrange(1, 500)])
            v += max(jump, 1 if ascending == 'strict' else 0)
        elif k < 0.25:
            v += s                         # the next run starts where this one would have continued
        elif k < 0.4:
            v += 0                         # repeats the last value
        elif k < 0.55:
            v += 2 * s
        else:
            v += rng.choice([1, -1]) * rng.randrange(0, 1000)
    return seq


def gen_float(rng):
    d = rng.choice([0.0, 1.0, -1.0, 1000.0, rng.uniform(-1e4, 1e4), rng.uniform(-1, 1) * 10 ** rng.randrange(-8, 12)])
    s = rng.choice([0.1, 0.5, -0.5, 0.1524, -0.1524, 0.25, rng.uniform(-3, 3), rng.uniform(0.001, 1) * 10 ** rng.randrange(-6, 6),
                    0.0 if rng.random() < 0.4 else 0.1])          # a float that repeats (zero stride) is a sequence too
    n = rng.choice([2, 3, 5, 8, 13, 21, 40])
    noise = 10.0 ** rng.uniform(-17, -6)
    form = rng.random()
    seq = []
    v = d
    for i in range(n):
        x = d + i * s if form < 0.6 else v
        v = v + s
        if rng.random() < 0.35:
            x = x * (1.0 + noise * rng.choice([-1, 1]))
        seq.append(x)
    if rng.random() < 0.3:      # a second progression
        seq += [seq[-1] + 10 * s + i * (s / 2) for i in range(rng.randrange(1, 6))]
    if rng.random() < 0.12:     # a value recorded twice in a row (equal neighbours) inside a float sequence
        k = rng.randrange(len(seq))
        seq[k:k] = [seq[k]] * rng.randrange(1, 3)
    return seq, noise


def gen_long(rng, tier):
    """Long sequences (what an index of a real file holds): thousands of values in few runs.  Returns (kind, seq)."""
    n = rng.randrange(1500, 6000 if tier == 'quick' else 20000)
    k = rng.random()
    if k < 0.35:       # file positions: regular stride with an occasional irregular record
        v, st, seq = rng.randrange(0, 10 ** 6), rng.choice([16, 1024, 8200, 65536]), []
        for _ in range(n):
            seq.append(v)
            v += st if rng.random() < 0.998 else st + rng.randrange(1, 5000)
        return 'long-int-positions', seq
    if k < 0.5:        # frame numbers 1..n with a few gaps and repeats
        seq, v = [], 1
        for _ in range(n):
            seq.append(v)
            v += 1 if rng.random() < 0.999 else rng.choice([0, 2, 7])
        return 'long-int-frames', seq
    # a regularly sampled float axis, large magnitude relative to its spacing (rounding breaks such an axis into many runs and
    # lookup by position walks the runs, so these stay shorter)
    n = rng.randrange(600, 1500 if tier == 'quick' else 6000)
    d = rng.choice([0.0, 1000.0, 1e6, rng.uniform(-1e5, 1e5)])
    st = rng.choice([0.1524, -0.1524, 0.5, 1e-3, 1e-6 if abs(d) <= 1e6 else 1e-3, rng.uniform(0.01, 2)])
    if rng.random() < 0.5:
        return 'long-float-direct', [d + i * st for i in range(n)]
    seq, v = [], d
    for _ in range(n):
        seq.append(v)
        v += st
    return 'long-float-accumulated', seq


FUNCS = {'double+1': lambda x: 2 * x + 1, 'negate': lambda x: -x, 'div16': lambda x: x // 16}


def gen_sequence(rng):
    k = rng.random()
    if k < 0.30:
        return 'runs', gen_runs(rng), None
    if k < 0.42:
        n = rng.choice([0, 1, 2, 3, 5, 8, 13, 30])
        lo = rng.choice([0, -3, 100])
        return 'irregular', [lo + rng.randrange(0, rng.choice([2, 3, 5])) for _ in range(n)], None
    if k < 0.50:
        n = rng.randrange(0, 25)
        w = rng.choice([10, 10 ** 6, 2 ** 64])
        return 'random-wide', [rng.randrange(-w, w) for _ in range(n)], None
    if k < 0.66:
        return 'ascending-strict', gen_runs(rng, 'strict'), None
    if k < 0.78:
        return 'ascending-weak', gen_runs(rng, 'weak'), None
    if k < 0.93:
        seq, noise = gen_float(rng)
        return 'float-progression', seq, None
    name = rng.choice(sorted(FUNCS))
    return 'mapped:' + name, gen_runs(rng, rng.choice([None, 'strict'])), name


def gen_triples(rng):
    n = rng.choice([1, 2, 3, 4, 6, 9, 14, 30])
    pos = rng.choice([0, 80, rng.randrange(0, 10 ** 6), rng.randrange(0, 2 ** 40)])
    xf = rng.random() < 0.6
    x = rng.choice([0, 1000, -500, rng.randrange(-10 ** 6, 10 ** 6)])
    if xf:
        x = float(x) + rng.choice([0.0, 0.5, 0.25, rng.random()])
    out = []
    frames = rng.randrange(1, 60)
    big = rng.random() < 0.06        # frame counts beyond one byte / two bytes / a million per record
    if big:
        frames = rng.choice([255, 256, 257, 65535, 65536, 10 ** 6 + 1])
    gap = rng.choice([16, 1024, rng.randrange(1, 5000)])
    dx = rng.choice([0, 1, -1, 6, -6, rng.randrange(-50, 50)])
    if xf:
        dx = rng.choice([0.0, 0.5, -0.5, 0.1524, -0.1524, float(dx)])
    for _ in range(n):
        k = rng.random()
        if k < 0.25:
            frames = rng.randrange(1, 60) if not big else rng.choice([1, 255, 256, 65535, 65536, 65537, 10 ** 6 + 1])
        if rng.random() < 0.25:
            gap = rng.choice([1, 16, 1024, rng.randrange(1, 5000)])
        if rng.random() < 0.15:
            dx = rng.choice([dx, -dx, 0 * dx, dx * 2])
        out.append((pos, frames, x))
        pos += gap
        x = x + dx * frames if rng.random() < 0.9 else x + rng.choice([-1, 1]) * rng.randrange(0, 100)
    return out


# ---------------------------------------------------------------------------------------------- LIS triples
_PREV_INDEX = []        # the frame index checked before this one (kept alive and asked again between the queries of the next)


def check_triples(rec, rep, LR, triples, kind, rng=None):
    n = len(triples)
    w0 = {'triples': [list(t) for t in triples[:40]], 'n': n, 'kind': kind}
    try:
        r = LR.RLEType01(b'FEET')
        for t in triples:
            r.add(*t)
    except Exception as e:  # noqa
        rep('frame_to_record', 'add-raises', 'RLEType01.add raised %s on %r' % (type(e).__name__, triples[:6]), w0, exc=e)
        return
    w0['runs'] = [(it.datum, it.stride, it.repeat, it.numFrames) for it in r.rle_items][:40]
    cum = [0]
    for _, f, _ in triples:
        cum.append(cum[-1] + f)
    total = cum[-1]
    rec.maxi('max_frames', total)
    rec.add('records_added', n)
    rec.mon('total_frames')
    tf, nv = r.totalFrames(), r.num_values()
    if tf != total:
        rep('total_frames', 'totalFrames', 'totalFrames()=%r for frame counts %r (sum %d)' % (tf, [t[1] for t in triples[:20]], total), dict(w0, got=tf, expected=total))
    if nv != n:
        rep('total_frames', 'num_values', 'num_values()=%r for %d records' % (nv, n), dict(w0, got=nv))
    # frames: all when few, else every record boundary plus a sample
    if total <= 400 or rng is None:
        frames = range(total)
    else:
        fs = set()
        for k in range(n):
            fs.update((cum[k], cum[k + 1] - 1, min(cum[k] + 1, cum[k + 1] - 1)))
        fs.update(rng.randrange(total) for _ in range(120))
        frames = sorted(fs)
    bad = 0
    frames = list(frames)
    if rng is not None:
        # frames are asked for in any order (a tail read, a reversing slice), and another index of the same process is asked
        # in between: what an index answers depends on its own records alone
        order = rng.choice(['ascending', 'descending', 'shuffled', 'tail-first'])
        if order == 'descending':
            frames.reverse()
        elif order == 'shuffled':
            rng.shuffle(frames)
        elif order == 'tail-first':
            k0 = len(frames) * 2 // 3
            frames = frames[k0:] + frames[:k0]
        rec.cls('frame-query-order:' + order)
    prev = _PREV_INDEX[0] if _PREV_INDEX else None
    for f in frames:
        if prev is not None and rng is not None and rng.random() < 0.3:
            pr, pcum, ptriples = prev
            pf = rng.randrange(pcum[-1]) if rng.random() < 0.5 else pcum[-1] - 1
            pk = bisect.bisect_right(pcum, pf) - 1
            rec.mon('other_index_interleaved')
            try:
                pg = tuple(pr.tellLrForFrame(pf))
            except Exception as e:  # noqa
                pg = '%s' % type(e).__name__
            if pg != (ptriples[pk][0], pf - pcum[pk]):
                rep('frame_to_record', 'other-index-differs', 'an index built earlier, asked between the queries of another: tellLrForFrame(%d)=%r expected %r' % (
                    pf, pg, (ptriples[pk][0], pf - pcum[pk])), {'triples': [list(t) for t in ptriples[:40]], 'frame': pf, 'got': repr(pg), 'kind': 'earlier-index'})
                prev = None
        rec.mon('frame_to_record')
        k = bisect.bisect_right(cum, f) - 1
        want = (triples[k][0], f - cum[k])
        try:
            g = r.tellLrForFrame(f)
        except Exception as e:  # noqa
            rep('frame_to_record', 'raises', 'tellLrForFrame(%d) raised %s, expected %r; frames per record %r' % (
                f, type(e).__name__, want, [t[1] for t in triples[:12]]), dict(w0, frame=f, expected=want), exc=e)
            bad += 1
        else:
            if tuple(g) != want:
                rep('frame_to_record', 'differs', 'tellLrForFrame(%d)=%r expected (record position, offset)=%r; frames per record %r' % (
                    f, g, want, [t[1] for t in triples[:12]]), dict(w0, frame=f, expected=want, got=repr(g)))
                bad += 1
        if bad >= 3:
            break
    if total > 0:
        _PREV_INDEX[:] = [(r, cum, list(triples))]
    for f in (total, total + 1, -1, total + 1000):
        rec.mon('frame_to_record')
        try:
            g = r.tellLrForFrame(f)
        except IndexError:
            continue
        except Exception as e:  # noqa
            rep('frame_to_record', 'out-of-range-wrong-exception', 'tellLrForFrame(%d) with %d frames raised %s' % (f, total, type(e).__name__), dict(w0, frame=f), exc=e)
        else:
            rep('frame_to_record', 'out-of-range-answered', 'tellLrForFrame(%d) with %d frames returned %r' % (f, total, g), dict(w0, frame=f, got=repr(g)))
    # the triples themselves, by position (both directions) and by iteration
    xs = [t[2] for t in triples]
    tol = tol_for(xs) if xs and isinstance(xs[0], float) else 0

    def same_triple(g, t):
        return (isinstance(g, tuple) and len(g) == 3 and g[0] == t[0] and g[1] == t[1]
                and (abs(g[2] - t[2]) <= tol if tol else g[2] == t[2]))

    rec.mon('triples_by_position')
    try:
        fwd = [r.value(i) for i in range(n)]
        back = [r.value(i - n) for i in range(n)]
        it = list(r.values())
    except Exception as e:  # noqa
        rep('triples_by_position', 'raises', 'value()/values() of the triple index raised %s' % type(e).__name__, w0, exc=e)
    else:
        for name, got in (('value(i)', fwd), ('value(i-n)', back), ('values()', it)):
            if len(got) != n or not all(same_triple(g, t) for g, t in zip(got, triples)):
                rep('triples_by_position', 'differs', '%s of the triple index = %r expected %r' % (name, got[:6], triples[:6]), dict(w0, via=name, got=repr(got[:30])))
    for j in (n, -n - 1):
        try:
            g = r.value(j)
        except IndexError:
            continue
        except Exception as e:  # noqa
            rep('triples_by_position', 'out-of-range-wrong-exception', 'value(%d) on %d records raised %s' % (j, n, type(e).__name__), dict(w0, index=j), exc=e)
        else:
            rep('triples_by_position', 'out-of-range-answered', 'value(%d) on %d records returned %r' % (j, n, g), dict(w0, index=j, got=repr(g)))


# ---------------------------------------------------------------------------------------------- shard
def run_shard(ctx, p):
    from TotalDepth.common import Rle as R
    from TotalDepth.LIS.core import Rle as LR
    from TotalDepth.RP66V1 import IndexXML
    from TotalDepth.util import XmlWrite as X
    from tdv.mon import contracts
    contracts.install_rle_contracts()
    rec, rng = ctx.rec, ctx.rng
    rep = Reporter(rec)
    part, parts = p['part'], p['parts']

    def xml_for(r, exp, w_kind):
        if r is None:
            return
        w0 = {'seq': exp[:60], 'kind': w_kind, 'items': items_of(r)[:60]}
        check_xml(rec, rep, X, IndexXML, r, exp, False, w0)
        if exp and isinstance(exp[0], int) and exp[0] >= 0 and all(b >= a for a, b in zip(exp, exp[1:])):
            check_xml(rec, rep, X, IndexXML, r, exp, True, w0)

    # ---- exhaustive: every sequence of length <= L over {0,1,2,3}, dealt round-robin
    L = p['exh_len']
    evals = nt = idx = 0
    first_sample = None
    for n in range(L + 1):
        for seq in itertools.product(range(4), repeat=n):
            idx += 1
            if idx % parts != part:
                continue
            seq = list(seq)
            r = check_sequence(rec, rep, R, seq, 'exhaustive')
            if idx % 7 == 0:
                xml_for(r, seq, 'exhaustive')
            evals += 1
            if is_nontrivial(seq):
                nt += 1
                first_sample = first_sample or seq
    rec.bulk_cases('sequences of length <= %d over {0,1,2,3}' % L, evals, nt, exhaustive=True,
                   sample={'sequence': first_sample, 'checked': 'value(i), value(i-n), values(), num_values, first, last, largest_le when ascending'})
    # ---- exhaustive: every record list of length <= M over gaps {16,48} x frames {1,2,3}, X = 100 + 0.5 * frame
    M = p['exh_rec']
    alphabet = [(g, f) for g in (16, 48) for f in (1, 2, 3)]
    evals = nt = idx = 0
    for n in range(M + 1):
        for recs in itertools.product(alphabet, repeat=n):
            idx += 1
            if idx % parts != part:
                continue
            pos, frame, triples = 80, 0, []
            for g, f in recs:
                triples.append((pos, f, 100.0 + 0.5 * frame))
                pos += g
                frame += f
            check_triples(rec, rep, LR, triples, 'exhaustive')
            evals += 1
            nt += n >= 2
    rec.bulk_cases('record lists of length <= %d over gaps {16,48} x frames {1,2,3}' % M, evals, nt, exhaustive=True)
    # ---- generated sequences
    for i in range(p['n_seq']):
        kind, seq, fname = gen_sequence(rng)
        fn = FUNCS[fname] if fname else None
        exp = [fn(x) for x in seq] if fn else seq
        rec.case(('seq', kind, [repr(x) for x in seq]), is_nontrivial(exp), classes=['seq:' + kind.split(':')[0]],
                 sample={'kind': kind, 'sequence': seq[:24]} if i < 2 else None)
        if any(a == b for a, b in zip(exp, exp[1:])):
            rec.cls('has-equal-neighbours')
        if any(b < a for a, b in zip(exp, exp[1:])):
            rec.cls('has-descent')
        pre = None
        if i % 5 == 1:
            rec.cls('history:add-query-interleaved')
            pre = build_interleaved(rec, rep, R, seq, kind, fn, rng)
            if pre is None:
                continue
        r = check_sequence(rec, rep, R, seq, kind, fn, prebuilt=pre)
        if i % 3 == 0:
            xml_for(r, exp, kind)
    # ---- long sequences
    for i in range(p.get('n_long', 0)):
        kind, seq = gen_long(rng, ctx.tier)
        rec.case(('long', kind, len(seq), repr(seq[:4]), repr(seq[-2:])), True, classes=['seq:' + kind],
                 sample={'kind': kind, 'length': len(seq), 'first': seq[:5]} if i < 1 else None)
        r = check_sequence(rec, rep, R, seq, kind)
        if i == 0:
            xml_for(r, seq, kind)
    # ---- generated triple lists
    for i in range(p['n_triples']):
        triples = gen_triples(rng)
        rec.case(('triples', [repr(t) for t in triples]), len(triples) >= 2,
                 classes=['triples:equal-frames' if len({t[1] for t in triples}) == 1 else 'triples:unequal-frames',
                          'triples:float-x' if isinstance(triples[0][2], float) else 'triples:int-x'],
                 sample={'triples': triples[:6]} if i < 1 else None)
        check_triples(rec, rep, LR, triples, 'generated', rng)
    # ---- contracts observed
    for name in ('RLEItem.add', 'RLE.add', 'RLEType01.add'):
        rec.mon('contract:' + name, contracts.COUNTS.get(name, 0))
    for name, msg in contracts.drain():
        rep('contract:' + name, 'breach', msg, {'contract': name, 'message': msg})


LEVEL_TEXT = ('Differential run of the real RLE classes against the plain list / bisect / cumulative-frame model on generated and '
              'exhaustively enumerated short sequences and record lists, every index and query, with icontract postconditions and '
              'shadow counters on RLEItem.add, RLE.add and RLEType01.add and an independent expansion of the XML written by '
              'xml_rle_write.  Complete for the enumerated scopes; beyond them only sampled.')
LEVEL_NOTE = 'Trusted: Python list indexing, bisect, Fraction, ElementTree, icontract; the harness enumeration. Not a proof for longer sequences.'
TECHNIQUE = 'runtime monitoring: small-scope exhaustive + generated differential against list/bisect model, icontract shadow-count postconditions'
