"""C03 DLIS logical files and their tables decode to what was encoded."""
import io
import itertools

from tdv.core.findings import classifier

ID = 'C03'
TITLE = 'DLIS logical files and their tables decode to what was encoded'
NATIVE = None
NEEDS = ('icontract',)
RULE = ('Random RP66V1 files from an independent encoder (tdv.gen.eflr over tdv.gen.dlis): 1..4 logical files, each FILE-HEADER, ORIGIN and '
        '0..8 further sets (public and private set types, optional set name), templates of 1..8 attributes with any subset of '
        '{count, code, units, value}, ordinary or invariant, 0..12 uniquely named objects whose components override any subset of '
        '{count, code, units, value}, are ABSATR, or are omitted at the end (0..all); values of all 19 supported representation codes, '
        'scalar and counted; encrypted records with random bodies interleaved; random physical layout.  Rarer shapes: 10..30 logical files, '
        'one template of 30..80 attributes, one set of 100..400 objects, counts >= 127 / ASCII >= 16384 bytes / units >= 127 bytes (2% of '
        'the files), private set types one or two characters away from FILE-HEADER / ORIGIN / CHANNEL / FRAME, those reserved words '
        'used as set name, object identifier or column label, redundant sets (identical copy of an earlier named set) and replacement '
        'sets (same type and name, new content).  Every decoded table is also addressed by column label and by object name.  Plus a systematic sweep on a '
        '3-column template: focus column x template role {ATTRIB, INVATR} x 16 template characteristic subsets x object component '
        '{16 subsets, ABSATR, omitted} x omission depth 0..3.  A case is one file (distinct by its bytes); non-trivial = it contains an '
        'overriding characteristic, an absent or invariant attribute, trailing omission, an encrypted record or >= 2 logical files.')
ASSUMPTIONS = [
    'only structures of RP66V1 section 3 are generated: template attributes always carry a label; object components never carry a label; '
    'duplicate labels / duplicate object names are not generated; a redundant set (role RSET) is an identical copy of an earlier named '
    'set of the same logical file, a replacement set (role RDSET) has the type and name of an earlier set and new content; both are '
    'explicitly formatted records and are expected as tables of their own, in file order (no merging is asserted)',
    'a column label leads to the cell of its column (object[label]) and an object name to its row (table[name]): this is how the '
    'table is "presented" to its users (LogPass construction addresses CHANNEL / FRAME tables this way)',
    'an object component overrides count or representation code without a value only when the template has no default value; a value is '
    'never encoded under a count of zero (RP66V1 gives such a value no meaning)',
    'representation codes the reader documents as unsupported (FSHORT, FSING1, FSING2, FDOUB1, FDOUB2, CSINGL, CDOUBL, ATTREF) are not generated',
    'VSINGL values are generated with a zero fraction only (non-zero fractions belong to C07, finding F4); NaN is not generated; the sign of a zero is not compared',
    'a cell counts as "marked absent" when the attribute is None or its value is None',
    'encrypted records are placed anywhere after the ORIGIN of the first logical file except between a FILE-HEADER and its ORIGIN',
]
_EFLR = 'TotalDepth.RP66V1.core.LogicalRecord.EFLR'
MECHANISMS = [
    (_EFLR, 'Object.__init__'), (_EFLR, 'Template.read'), (_EFLR, 'Attribute.__init__'), (_EFLR, 'TemplateAttribute.__init__'),
    (_EFLR, 'Set.__init__'),
    ('TotalDepth.RP66V1.core.LogicalFile', 'LogicalFile.is_next'), ('TotalDepth.RP66V1.core.LogicalFile', 'LogicalIndex.__enter__'),
    ('TotalDepth.RP66V1.core.LogicalFile', 'LogicalFile.add_eflr'),
]
REQUIRED_MONITORS = ['logical_files_vs_model', 'table_vs_model', 'cell_vs_model', 'encrypted_skipped', 'record_position', 'sweep_table',
                     'lookup_by_name']
MIN_NONTRIVIAL = {'quick': 4000, 'thorough': 60000}
TIMEOUT_S = {'quick': 300, 'thorough': 3000}
NSHARDS = 16
FILES = {'quick': 400, 'thorough': 6000}          # random files per shard
SWEEP_GROUP = 10                                 # sweep tables per file
MAX_UNKNOWN_RECORDED = 25


def plan(tier, seed):
    return [{'files': FILES[tier], 'part': i, 'parts': NSHARDS} for i in range(NSHARDS)]


# ------------------------------------------------------------------------------------------------ observation
def canon_value(v):
    from tdv.gen import eflr as E
    if isinstance(v, bool):
        return ['?', repr(v)]
    if isinstance(v, float):
        return E.cf(v)
    if isinstance(v, int):
        return int(v)
    if isinstance(v, (bytes, bytearray)):
        return E.cb(v)
    n = type(v).__name__
    try:
        if n == 'ObjectName':
            return ['obname', int(v.O), int(v.C), E.cb(v.I)]
        if n == 'ObjectReference':
            return ['objref', E.cb(v.T), canon_value(v.N)]
        if n == 'DateTime':
            return ['dtime', v.year, v.tz, v.month, v.day, v.hour, v.minute, v.second, v.millisecond]
    except Exception as e:  # noqa
        return ['?', '%s: %r' % (n, e)]
    return ['?', repr(v)[:200]]


def dump_attr(a):
    if a is None:
        return None
    val = a.value
    if val is not None:
        val = [canon_value(x) for x in val]
    return {'label': bytes(a.label).hex(), 'count': a.count, 'rc': a.rep_code, 'units': bytes(a.units).hex(), 'value': val}


def dump_eflr(e):
    """Canonical dump of one decoded table (the M1 event)."""
    return {
        'lr_type': e.lr_type, 'set_type': bytes(e.set.type).hex(), 'set_name': bytes(e.set.name).hex(),
        'template': [dump_attr(a) for a in e.template.attrs],
        'objects': [{'name': [int(o.name.O), int(o.name.C), bytes(o.name.I).hex()], 'cells': [dump_attr(a) for a in o.attrs]}
                    for o in e.objects],
    }


def canon_expected_attr(d):
    if d.get('absent'):
        return {'absent': True}
    return {'label': d['label'].hex(), 'count': d['count'], 'rc': d['rc'], 'units': d['units'].hex(), 'value': d['value']}


def canon_expected(table):
    x = table.expected()
    return {
        'lr_type': x['lr_type'], 'set_type': x['set_type'].hex(), 'set_name': x['set_name'].hex(),
        'template': [canon_expected_attr(a) for a in x['template']],
        'objects': [{'name': [o['name'][0], o['name'][1], o['name'][2].hex()], 'cells': [canon_expected_attr(c) for c in o['cells']]}
                    for o in x['objects']],
    }


def compare_cells(exp_cells, got_cells, template_exp):
    """-> list of mismatches for one object row."""
    out = []
    if len(exp_cells) != len(got_cells):
        return [{'field': 'row-length', 'expected': len(exp_cells), 'observed': len(got_cells)}]
    for i, (ec, gc) in enumerate(zip(exp_cells, got_cells)):
        if ec.get('absent'):
            if gc is None or gc['value'] is None:
                continue
            out.append({'column': i, 'field': 'absent', 'expected': 'marked absent', 'observed_value': gc['value'],
                        'template_value': template_exp[i]['value']})
            continue
        if gc is None:
            out.append({'column': i, 'field': 'present', 'expected': ec, 'observed': None})
            continue
        for f in ('label', 'count', 'rc', 'units', 'value'):
            if ec[f] != gc[f]:
                out.append({'column': i, 'field': f, 'expected': ec[f], 'observed': gc[f]})
    return out


def lookup_problems(e):
    """The table as its users address it (LogPass reads channel_object[b'UNITS'], channel_eflr[obname]): a column label must lead to the
    cell of that column, an object name to the row of that object.  -> list of problems (live objects, called while the index is open)."""
    out = []
    try:
        for i, a in enumerate(e.template.attrs):
            if e.template[bytes(a.label)] is not a:
                out.append('template[%r] is not template column %d' % (bytes(a.label), i))
        for k, o in enumerate(e.objects):
            if e[o.name] is not o:
                out.append('table[%r] is not row %d' % (o.name, k))
            for i, a in enumerate(o.attrs):
                lab = bytes(e.template.attrs[i].label)
                if o[lab] is not a:
                    out.append('row %d [%r] is not the cell of column %d' % (k, lab, i))
            if len(out) > 5:
                break
    except Exception as ex:  # noqa
        out.append('lookup raised %s: %s' % (type(ex).__name__, ex))
    return out


def compare_head(exp, got):
    """Set and template."""
    out = []
    for f in ('lr_type', 'set_type', 'set_name'):
        if exp[f] != got[f]:
            out.append({'field': f, 'expected': exp[f], 'observed': got[f]})
    if len(exp['template']) != len(got['template']):
        out.append({'field': 'template-length', 'expected': len(exp['template']), 'observed': len(got['template'])})
    else:
        for i, (ea, ga) in enumerate(zip(exp['template'], got['template'])):
            if ga is None:
                out.append({'column': i, 'field': 'template-attr', 'expected': ea, 'observed': None})
                continue
            for f in ('label', 'count', 'rc', 'units', 'value'):
                if ea[f] != ga[f]:
                    out.append({'column': i, 'field': 'template-' + f, 'expected': ea[f], 'observed': ga[f]})
    return out


# ------------------------------------------------------------------------------------------------ classifiers (F3)
def _desync_trigger(info):
    """True when the model says object `info` has an invariant template column before its last component: the reader consumes one
    component descriptor per template column including invariant ones, which have no component."""
    if not info or not info.get('components'):
        return False
    last = info['last_component_template_index']
    return any(i < last for i in info['invariant_template_indexes'])


@classifier('c03_absatr_shows_template_default')
def _f3a(v):
    if v.get('monitor') != 'table_vs_model' or v.get('kind') != 'cells':
        return False
    ms = v['witness'].get('mismatches') or []
    info = v['witness'].get('object_info') or {}
    if not ms or _desync_trigger(info):
        return False
    for m in ms:
        if m.get('field') != 'absent' or m.get('template_value') is None or m.get('observed_value') != m.get('template_value'):
            return False
        if m.get('column') not in info.get('absent_with_template_default', []):
            return False
    return True


@classifier('c03_invatr_consumes_component')
def _f3b(v):
    if v.get('monitor') != 'table_vs_model' or v.get('kind') not in ('cells', 'desync'):
        return False
    return _desync_trigger(v['witness'].get('object_info'))


@classifier('c03_object_without_components_raises')
def _f3c(v):
    if v.get('monitor') != 'table_vs_model' or v.get('kind') != 'desync':
        return False
    w = v['witness']
    info = w.get('object_info') or {}
    if info.get('components') != 0:
        return False
    et, em = w.get('exc_type'), w.get('exc_msg') or ''
    return et == 'IndexError' or (et == 'ExceptionEFLRObject' and 'does not represent a attribute but a Object' in em)


# ------------------------------------------------------------------------------------------------ the check of one table
class Checker:
    def __init__(self, ctx):
        from TotalDepth.RP66V1.core import File
        from TotalDepth.RP66V1.core.LogicalRecord import EFLR
        self.ctx, self.rec = ctx, ctx.rec
        self.File, self.EFLR = File, EFLR

    def violation(self, monitor, kind, msg, witness, exc=None):
        return self.rec.violation(monitor, kind, msg, witness, exc=exc)

    def decode(self, lr_type, payload):
        """The reader's decoder on one record body -> ('ok', dump) | ('raise', exc)."""
        try:
            e = self.EFLR.ExplicitlyFormattedLogicalRecord(lr_type, self.File.LogicalData(payload))
            return 'ok', dump_eflr(e)
        except Exception as ex:  # noqa
            return 'raise', ex

    def row_violation(self, table, base, k, ms, go, eo):
        """A row whose cells differ.  Returns True when the row is one the reader decodes out of step (stop comparing the record)."""
        info = table.object_info(k)
        if _desync_trigger(info):
            self.violation('table_vs_model', 'desync', 'object %d decoded out of step with its components: %r' % (k, ms[:2]),
                           dict(base, object_info=info, mismatches=ms, first_bad_object=k, exc_type=None, exc_msg=None))
            return True
        self.violation('table_vs_model', 'cells', 'object %d: cells differ from the encoded model: %r' % (k, ms[:2]),
                       dict(base, object_info=info, mismatches=ms, first_bad_object=k, observed_row=go, expected_row=eo))
        return False

    def check_table(self, table, payload, got, got_exc, where):
        """Compare one observed table (dump `got`, or the exception got_exc of decoding it) with the model.  Returns True if equal."""
        rec = self.rec
        rec.mon('table_vs_model')
        exp = canon_expected(table)
        base = {'where': where, 'table': table.describe(), 'payload': payload, 'lr_type': table.lr_type}
        structural = None
        if got is None:
            structural = 'decode raised %s: %s' % (type(got_exc).__name__, got_exc)
        else:
            head = compare_head(exp, got)
            if head:
                self.violation('table_vs_model', 'head', 'set/template differ from the encoded model: %r' % head[:3],
                               dict(base, mismatches=head, observed=got))
                return False
            names_e = [o['name'] for o in exp['objects']]
            names_g = [o['name'] for o in got['objects']]
            if names_e != names_g:
                structural = 'object names differ: expected %d objects %r..., observed %d %r...' % (len(names_e), names_e[:3], len(names_g), names_g[:3])
        if structural is None:
            ok = True
            for k, (eo, go) in enumerate(zip(exp['objects'], got['objects'])):
                ms = compare_cells(eo['cells'], go['cells'], exp['template'])
                rec.mon('cell_vs_model', len(eo['cells']))
                if not ms:
                    continue
                ok = False
                if self.row_violation(table, base, k, ms, go, eo) or rec.unknown_count > MAX_UNKNOWN_RECORDED:
                    break
            return ok
        # ---- exception or wrong object list: decode growing prefixes of the record (set+template, then one more object each time)
        # to find the first object at which the reader leaves the encoded structure; rows before it are still compared cell by cell
        exc = got_exc
        st, pg = self.decode(table.lr_type, payload[:table.template_end])
        if st == 'raise' or compare_head(exp, pg) or pg['objects']:
            self.violation('table_vs_model', 'head', '%s; the set/template part alone does not decode to the model' % structural,
                           dict(base, exc_type=type(exc).__name__ if exc is not None else None,
                                prefix_exc=repr(pg) if st == 'raise' else None, observed=None if st == 'raise' else pg), exc=exc)
            return False
        for k, end in enumerate(table.object_ends):
            st, pg = self.decode(table.lr_type, payload[:end])
            eo = exp['objects'][k]
            if st == 'raise' or len(pg['objects']) != k + 1 or pg['objects'][k]['name'] != eo['name']:
                pexc = pg if st == 'raise' else None
                self.violation(
                    'table_vs_model', 'desync',
                    '%s; first divergence at object %d (%s)' % (structural, k, ('%s: %s' % (type(pexc).__name__, pexc)) if pexc is not None else 'wrong object list'),
                    dict(base, object_info=table.object_info(k), first_bad_object=k,
                         exc_type=type(exc).__name__ if exc is not None else (type(pexc).__name__ if pexc is not None else None),
                         exc_msg=str(exc if exc is not None else pexc)[:300] if (exc is not None or pexc is not None) else None,
                         prefix_exc_type=type(pexc).__name__ if pexc is not None else None,
                         prefix_exc_msg=str(pexc)[:300] if pexc is not None else None,
                         expected_row=eo),
                    exc=exc if exc is not None else pexc)
                return False
            go = pg['objects'][k]
            ms = compare_cells(eo['cells'], go['cells'], exp['template'])
            rec.mon('cell_vs_model', len(eo['cells']))
            if ms and self.row_violation(table, base, k, ms, go, eo):
                return False
        self.violation('table_vs_model', 'whole-record-only', 'every prefix decodes to the expected objects but the whole record does not: ' + structural,
                       dict(base, exc_type=type(exc).__name__ if exc is not None else None), exc=exc)
        return False


# ------------------------------------------------------------------------------------------------ files
class Entry:
    """One logical record of a generated file: a table (plain EFLR) or an encrypted record."""
    __slots__ = ('table', 'payload', 'lr')

    def __init__(self, table, payload, lr):
        self.table, self.payload, self.lr = table, payload, lr


RESERVED_WORDS = (b'FILE-HEADER', b'ORIGIN', b'CHANNEL', b'FRAME', b'WELL-REFERENCE')
# private set types that differ from a reserved one by a character or two (they are ordinary sets: no logical file starts at them)
NEAR_MISS_SET_TYPES = (b'FILE-HEADERS', b'XFILE-HEADER', b'FILE-HEADE', b'FILE', b'HEADER', b'FILE-HEADER-2', b'FILE_HEADER', b'ORIGINS',
                       b'CHANNELS', b'FRAMES', b'FRAME-DATA', b'ORIGI')


def spice_with_reserved_words(rng, t):
    """Put a reserved set type word where it is only a name: set name, object identifier or column label."""
    r = rng.random()
    w = rng.choice(RESERVED_WORDS)
    if r < 0.4 or not t.objects:
        t.set_name = w
    elif r < 0.7:
        o = rng.choice(t.objects)
        nm = (o.name[0], o.name[1], w)
        if all(x.name != nm for x in t.objects):
            o.name = nm
    elif all(ta.label != w for ta in t.template):
        rng.choice(t.template).label = w


def build_random_file(rng, tier, hostile):
    """-> (list of logical files, each a list of Entry; extra class names).
    hostile: may contain invariant attributes and objects without components."""
    from tdv.gen import eflr as E
    from tdv.gen.dlis import LR
    big = rng.random() < (0.05 if tier == 'thorough' else 0.02)
    shape = rng.random()
    many_lf, wide, long_ = shape < 0.03, 0.03 <= shape < 0.06, 0.06 <= shape < 0.09
    nlf = rng.randrange(10, 31) if many_lf else rng.choice([1, 1, 1, 2, 2, 3, 4])
    kw = dict(allow_invariant=hostile, allow_all_omitted=hostile, big=big)
    lfs = []
    extra = set()
    if big:
        extra.add('big-values(count>=127,ascii>=16384,units>=127)')
    if many_lf:
        extra.add('logical-files>=10')
    for i in range(nlf):
        ents = []
        lone = {'used': False}

        def add(t):
            p = t.encode()
            ents.append(Entry(t, p, LR(True, t.lr_type, p, False)))

        def further_set(k):
            if wide and k == 0:
                extra.add('template>=30-attributes')
                return E.random_table(rng, n_attrs=rng.randrange(30, 81), max_objects=4, **kw)
            if long_ and k == 0:
                extra.add('objects>=100')
                return E.random_table(rng, max_attrs=3, n_objects=rng.randrange(100, 401), **kw)
            if rng.random() < 0.04:
                extra.add('near-miss-of-a-reserved-set-type')
                return E.random_table(rng, set_type=rng.choice(NEAR_MISS_SET_TYPES), lr_type=rng.choice([128, 129, 200, 255]), **kw)
            if rng.random() < 0.04 and not lone['used']:
                # a CHANNEL set or a FRAME set on its own (never both, never two: together they describe frame data, which is C04's
                # subject): the reader keeps it aside for a log pass, and it is still a table like any other
                lone['used'] = True
                extra.add('lone-CHANNEL-or-FRAME-set')
                st, lt = rng.choice([(b'CHANNEL', 3), (b'FRAME', 4)])
                return E.random_table(rng, set_type=st, lr_type=lt, **kw)
            t = E.random_table(rng, **kw)
            if rng.random() < 0.06:
                extra.add('reserved-word-as-a-name')
                spice_with_reserved_words(rng, t)
            return t

        def maybe_copy():
            """A redundant set (identical copy of an earlier named set of this logical file) or a replacement set (same type and name,
            new content), RP66V1 3.2.2.1: both are explicitly formatted records and are presented as tables like any other."""
            named = [e.table for e in ents[2:] if e.table is not None and e.table.set_name is not None and e.table.set_role == E.ROLE_SET
                     and e.table.set_type not in (b'ORIGIN', b'CHANNEL', b'FRAME')]
            if not named or rng.random() >= 0.06:
                return
            src = rng.choice(named)
            if rng.random() < 0.6:
                t = E.Table(src.lr_type, src.set_type, src.set_name, src.template, src.objects)
                t.set_role = E.ROLE_RSET
            else:
                t = E.random_table(rng, set_type=src.set_type, lr_type=src.lr_type, **kw)
                t.set_name = src.set_name
                t.set_role = E.ROLE_RDSET
            extra.add('redundant-or-replacement-set')
            add(t)

        def maybe_encrypted(p=0.2):
            while rng.random() < p:
                body = E.random_encrypted_payload(rng)
                ents.append(Entry(None, body, LR(rng.random() < 0.6, rng.choice([0, 1, 3, 4, 5, 127, 128, rng.randrange(256)]), body, True)))
                p *= 0.5

        add(E.file_header_table(rng, i + 1))
        add(E.origin_table(rng, **kw))
        maybe_encrypted()
        nsets = rng.choice([0, 1, 2]) if many_lf else rng.choice([0, 1, 2, 3, rng.randrange(0, 9)])
        if (wide or long_) and i == 0:
            nsets = max(nsets, 1)
        for k in range(nsets):
            add(further_set(k if i == 0 else 1))
            maybe_encrypted()
            maybe_copy()
        lfs.append(ents)
    return lfs, sorted(extra)


def run_file(ctx, chk, lfs, classes_extra=(), case=True):
    """Write the logical files physically, index them with the real reader, compare everything with the model."""
    from tdv.gen import dlis
    from TotalDepth.RP66V1.core import LogicalFile
    rec, rng = ctx.rec, ctx.rng
    entries = [e for lf in lfs for e in lf]
    lrs = [e.lr for e in entries]
    # segments of encrypted records may carry the padding attribute bit: their pad bytes (and the count in the last byte) are part of
    # the ciphertext, so a reader that cannot decrypt takes nothing off (the last byte of a random body mostly exceeds its length)
    lay = dict(dlis.random_layout(rng), p_enc_padbit=rng.choice([0.0, 0.5, 1.0]))
    data, fm = dlis.write_file_safe(rng, lrs, layout=lay)
    if any(fm.records[i].lr.encrypted != lrs[i].encrypted for i in range(len(lrs))):
        # the layout could not hold an encrypted cut and the writer fell back to plain records: random bodies are then not
        # RP66V1 records at all; drop them and write again
        lfs = [[e for e in lf if e.table is not None] for lf in lfs]
        entries = [e for lf in lfs for e in lf]
        lrs = [e.lr for e in entries]
        data, fm = dlis.write_file_safe(rng, lrs, layout=lay)
        rec.add('files_rewritten_without_encrypted')
    feats = set()
    for e in entries:
        if e.table is not None:
            feats |= e.table.features()
    if any(e.table is not None and len(e.payload) >= 65536 for e in entries):
        feats.add('table-record>=65536-bytes')
    nenc = sum(1 for e in entries if e.table is None)
    if nenc:
        feats.add('encrypted-neighbour')
    if len(lfs) >= 2:
        feats.add('multi-logical-file')
    nontrivial = bool(feats & {'override-count', 'override-repcode', 'override-units', 'absent', 'invariant', 'trailing-omission',
                               'all-omitted', 'encrypted-neighbour', 'multi-logical-file'})
    if case:
        rec.case(data, nontrivial, classes=sorted(feats | set(fm.classes()) | set(classes_extra)),
                 sample={'bytes': len(data), 'logical_files': len(lfs), 'records': len(lrs), 'layout': fm.layout,
                         'first_tables': [e.table.describe() for e in entries if e.table is not None][2:4]})
    rec.add('bytes_generated', len(data))
    rec.add('records_generated', len(lrs))
    # ---- the real reader
    observed = None
    index_exc = None
    try:
        with LogicalFile.LogicalIndex(io.BytesIO(data)) as li:
            observed = []
            for lf in li.logical_files:
                observed.append([(int(pe.lrsh_position.vr_position), int(pe.lrsh_position.lrsh_position), dump_eflr(pe.eflr),
                                  lookup_problems(pe.eflr)) for pe in lf.eflrs])
    except Exception as ex:  # noqa
        index_exc = ex
    if observed is not None:
        rec.add('tables_dumped', sum(len(x) for x in observed))
        rec.mon('logical_files_vs_model')
        exp_counts = [sum(1 for e in lf if e.table is not None) for lf in lfs]
        got_counts = [len(x) for x in observed]
        if exp_counts != got_counts:
            chk.violation('logical_files_vs_model', 'split',
                          'logical files / tables per logical file: expected %r observed %r' % (exp_counts, got_counts),
                          {'expected': exp_counts, 'observed': got_counts, 'data': data,
                           'set_types': [[bytes.fromhex(t[2]['set_type']).decode('latin-1') for t in x] for x in observed]})
            return
        ri = 0
        positions_ok = True
        for lf, obs in zip(lfs, observed):
            j = 0
            for e in lf:
                rm = fm.records[ri]
                ri += 1
                if e.table is None:
                    continue
                vrp, lrp, got, lookups = obs[j]
                j += 1
                rec.mon('lookup_by_name')
                if lookups:
                    chk.violation('lookup_by_name', 'lookup', 'addressing the table by label / object name: %s' % '; '.join(lookups[:3]),
                                  {'problems': lookups, 'table': e.table.describe(), 'payload': e.payload})
                rec.mon('record_position')
                if (vrp, lrp) != (rm.vr_position, rm.lrsh_position):
                    positions_ok = False
                    chk.violation('record_position', 'position', 'table position (%d,%d) but the record was written at (%d,%d)' % (
                        vrp, lrp, rm.vr_position, rm.lrsh_position), {'observed': [vrp, lrp], 'expected': [rm.vr_position, rm.lrsh_position],
                                                                       'record': rm.describe()})
                chk.check_table(e.table, e.payload, got, None, 'index')
        if positions_ok and nenc:
            # no table was made of an encrypted record and every plain record was found at its own position; what the neighbours
            # decode to is compared above like any other table
            rec.mon('encrypted_skipped', nenc)
        return
    # ---- the index raised: decode every table on its own to find the one(s) responsible
    rec.add('files_index_raised')
    culprits = 0
    for e in entries:
        if e.table is None:
            continue
        st, got = chk.decode(e.table.lr_type, e.payload)
        if st == 'ok':
            if not chk.check_table(e.table, e.payload, got, None, 'direct'):
                culprits += 1
        else:
            chk.check_table(e.table, e.payload, None, got, 'direct')
            culprits += 1
    if culprits == 0:
        chk.violation('logical_files_vs_model', 'index-raised', 'indexing raised %s: %s although every table decodes to the model on its own' % (
            type(index_exc).__name__, index_exc), {'data': data, 'layout': fm.layout}, exc=index_exc)


# ------------------------------------------------------------------------------------------------ systematic sweep
SUBSETS = [''.join(s) for n in range(5) for s in itertools.combinations('CRUV', n)]


def sweep_space():
    """(focus, template role, template subset, object component state, omission depth)."""
    out = []
    for f in range(3):
        for tsub in SUBSETS:
            for depth in range(4):
                first_omitted = 3 - depth
                if f >= first_omitted:
                    out.append((f, 'ATTRIB', tsub, 'omitted', depth))
                else:
                    for st in SUBSETS + ['absent']:
                        if st != 'absent' and ('C' in st or 'R' in st) and 'V' not in st and 'V' in tsub:
                            continue        # would re-interpret the template default under another count/code: not generated
                        out.append((f, 'ATTRIB', tsub, st, depth))
            for depth in range(3):
                out.append((f, 'INVATR', tsub, None, depth))
    return out


def sweep_table(rng, combo):
    from tdv.gen import eflr as E
    f, trole, tsub, st, depth = combo
    codes = E.COMMON_CODES
    labels = [b'ALPHA', b'BETA', b'GAMMA']
    template = []
    for i in range(3):
        if i == f:
            template.append(E.random_template_attr(rng, labels[i], codes, trole == 'INVATR', subset=tsub))
        else:
            template.append(E.random_template_attr(rng, labels[i], codes, False, subset=rng.choice(['R', 'RV', 'CR', 'CRUV', ''])))
    non_inv = [i for i in range(3) if not template[i].invariant]
    keep = non_inv[:max(0, len(non_inv) - depth)]

    def plain_obj(name):
        return E.Obj(name, [None if ta.invariant else E.random_cell(rng, ta, codes, subset='V') for ta in template])

    cells = []
    for i, ta in enumerate(template):
        if ta.invariant:
            cells.append(None)
        elif i not in keep:
            cells.append(E.Cell('omitted'))
        elif i == f:
            cells.append(E.Cell('absent') if st == 'absent' else E.random_cell(rng, ta, codes, subset=st))
        else:
            cells.append(E.random_cell(rng, ta, codes, subset=rng.choice(['V', 'V', 'UV', ''])))
    objs = [plain_obj((1, 0, b'BEFORE')), E.Obj((1, 0, b'SWEPT'), cells)]
    if rng.random() < 0.8:
        objs.append(plain_obj((1, 0, b'AFTER')))
    return E.Table(5, b'PARAMETER', b'SWEEP' if rng.random() < 0.5 else None, template, objs)


def run_sweep(ctx, chk, part, parts):
    from tdv.gen import eflr as E
    from tdv.gen.dlis import LR
    rec, rng = ctx.rec, ctx.sub_rng('sweep')
    space = sweep_space()
    mine = space[part::parts]
    groups = {False: [], True: []}
    nt = 0
    for combo in mine:
        t = sweep_table(rng, combo)
        info = t.object_info(1)
        hostile = _desync_trigger(info) or info['components'] == 0
        groups[hostile].append(t)
        nt += 1
        rec.mon('sweep_table')
    for hostile in (False, True):
        ts = groups[hostile]
        for g in range(0, len(ts), SWEEP_GROUP):
            ents = []
            for t in [E.file_header_table(rng, 1), E.origin_table(rng, allow_invariant=False, allow_all_omitted=False)] + ts[g:g + SWEEP_GROUP]:
                p = t.encode()
                ents.append(Entry(t, p, LR(True, t.lr_type, p, False)))
            run_file(ctx, chk, [ents], classes_extra=['sweep-file'], case=False)
    rec.bulk_cases('sweep: focus column x template {ATTRIB,INVATR} x 16 template subsets x object component {16 subsets, ABSATR, omitted} x omission depth 0..3 (3-column template)',
                   len(mine), nt, exhaustive=True, sample={'combo': list(mine[0]), 'space': len(space)})
    rec.note('sweep_space_size', len(space))


def run_shard(ctx, p):
    import logging
    logging.disable(logging.CRITICAL)
    rec, rng = ctx.rec, ctx.rng
    chk = Checker(ctx)
    from tdv.gen import eflr as _E
    _E.COUNT0_WITH_VALUE_P = 0.5       # count 0 with the value characteristic present: zero elements, zero bytes
    try:
        from tdv.mon import contracts
        inst = getattr(contracts, 'install_rp66v1_file_contracts', None)       # the contracts of C01 (physical layer), when present
        if inst:
            inst()
    except Exception:  # contracts of C01 are optional for this property
        contracts = None
    run_sweep(ctx, chk, p['part'], p['parts'])
    for i in range(p['files']):
        hostile = rng.random() < 0.3
        lfs, extra = build_random_file(rng, ctx.tier, hostile)
        run_file(ctx, chk, lfs, classes_extra=(['may-contain-invatr/no-component-objects'] if hostile else ['plain-file']) + extra)
        if rec.unknown_count > 3 * MAX_UNKNOWN_RECORDED:
            break
    if contracts is not None:
        for name, cnt in contracts.COUNTS.items():
            rec.mon('contract:' + name, cnt)
        for name, msg in contracts.drain():
            rec.violation('contract:' + name, 'breach', msg, {'contract': name, 'message': msg})


LEVEL_TEXT = ('Random files from an independent RP66V1 encoder (model = oracle) decoded by the real LogicalIndex and compared cell by cell, '
              'plus an exhaustive sweep of characteristic subsets x component roles x omission depth on a 3-column template; '
              'failures are localised to the first object at which a record prefix diverges.  Exploration: sampled, not complete.')
LEVEL_NOTE = ('Trusted: the harness encoders written from RP66V1 section 3 / Appendix B and the physical writer tdv.gen.dlis. '
              'Unsupported representation codes and non-standard structures are outside the generated space.')
TECHNIQUE = 'runtime monitoring: model-based differential (independent encoder as oracle) on the live reader, sys.monitoring mechanism counters, prefix localisation of decode failures'
