"""C13 Western Atlas BIT log passes decode to the recorded numbers."""
import math
import os
from fractions import Fraction

from tdv.core.findings import classifier

ID = 'C13'
TITLE = 'Western Atlas BIT log passes decode to the recorded numbers'
NATIVE = 'plain'          # the ISINGL differential imports TotalDepth.RP66V1 which imports TotalDepth.LIS.core.cRepCode
NEEDS = ()
RULE = ('Files from the independent encoder tdv.gen.bit: 1..4 (some 11..21) passes, 1..20 unique four-character channel names ([A-Z0-9] or any printable '
        'ASCII), 276-byte first block, one pass of >= 300 blocks per shard, data blocks of exactly 276 / 12 bytes, some file objects read twice, '
        'channel-major data blocks of 1..64 frames (constant size with a short last block, constant, varying, single or no block), '
        'a type-1 TIF marker after every pass and a second one at the end; every frame value is a random 4-byte word (any sign, '
        'exponent, fraction; some zero, unnormalised, extreme) with a value unique inside its pass; start/stop/spacing are IBM floats, '
        'up and down logs.  One case = one file (distinct by its bytes); non-trivial = some pass has >= 2 channels and >= 2 data blocks '
        'with a short last block.  Plus the example file of the repository (expected content from the independent strict reader) and an '
        'enumerated decoder sub-space: all 256 sign/exponent bytes x boundary and random fractions through gen_floats, bytes_to_float '
        'and ISINGL (counted as evaluations, not as non-trivial cases).')
ASSUMPTIONS = [
    'IBM System/360 single: value = (-1)^s * (fraction/2^24) * 16^(e-64); always exactly representable as a double, so == is the oracle',
    'channel names inside one pass are unique and differ from the computed axis name "X   " (the frame array rejects duplicates)',
    'the header spacing is stored as a positive magnitude and start != stop (as in the example file); the direction comes from start/stop; '
    'start == stop is generated only for passes of at most one frame, where X = [start] whatever the direction',
    'the X axis is accumulated by repeated addition: frame i may deviate from start +/- i*spacing by at most i * 2^-52 * max(|start|, |x_i|)',
    'a zero fraction with the sign bit set may read as -0.0 (equal to 0.0)',
]
MECHANISMS = [
    ('TotalDepth.BIT.ReadBIT', 'yield_tif_blocks'), ('TotalDepth.BIT.ReadBIT', 'create_bit_frame_array_from_file'),
    ('TotalDepth.BIT.ReadBIT', 'BITFrameArray.add_block'), ('TotalDepth.BIT.ReadBIT', 'BITFrameArray.complete'),
    ('TotalDepth.BIT.ReadBIT', 'gen_floats'), ('TotalDepth.BIT.ReadBIT', 'bytes_to_float'),
    ('TotalDepth.RP66V1.core.pRepCode', 'ISINGL'),
]
REQUIRED_MONITORS = ['structure', 'frame_values_exact', 'x_axis', 'header_range_exact', 'bytes_to_float_exact', 'isingl_exact',
                     'gen_floats_exact', 'example_file']
FILES_PER_SHARD = {'quick': 180, 'thorough': 4000}
RANDOM_FRACTIONS = {'quick': 40, 'thorough': 1500}
MIN_NONTRIVIAL = {'quick': 1200, 'thorough': 25000}
TIMEOUT_S = {'quick': 300, 'thorough': 3000}
NSHARDS = 16
CHUNK = 256
MAX_UNKNOWN_PER_KIND = 20
BOUNDARY_FRACTIONS = [0, 1, 2, 0xF, 0x10, 0xFFFFF, 0x100000, 0x100001, 0x7FFFFF, 0x800000, 0x800001, 0xFFFFFE, 0xFFFFFF, 0x0000FF, 0x00FF00,
                      0xFF0000, 0x123456, 0xABCDEF]


def plan(tier, seed):
    return [{'files': FILES_PER_SHARD[tier], 'fractions': RANDOM_FRACTIONS[tier], 'part': i, 'parts': NSHARDS} for i in range(NSHARDS)]


# ------------------------------------------------------------------------------------------------ known finding F10
def _fields(word):
    return word[0] >> 7, word[0] & 0x7F, (word[1] << 16) | (word[2] << 8) | word[3]


@classifier('c13_gen_floats_divides_by_ffffff')
def _c13_f10(v):
    """Every listed value is the stored fraction divided by 0xffffff instead of 2^24 (exact value * 2^24/(2^24-1), within one ulp),
    recomputed from the witness bytes.  Anything else in the list (zero fraction, other value, misplaced value) -> not this finding."""
    if v.get('monitor') not in ('frame_values_exact', 'gen_floats_exact') or v.get('kind') != 'value-mismatch':
        return False
    w = v['witness']
    wb = w['words']
    if 'truncated_from' in wb:
        return False
    words = bytes.fromhex(wb['hex'])
    obs = w['observed_hex']
    if not obs or len(words) != 4 * len(obs):
        return False
    for k, oh in enumerate(obs):
        if not isinstance(oh, str):
            return False
        s, e, f = _fields(words[4 * k:4 * k + 4])
        if f == 0:
            return False
        scaled = Fraction(f, 0xFFFFFF) * Fraction(16) ** (e - 64)
        pred = float(-scaled if s else scaled)
        o = float.fromhex(oh)
        if abs(o - pred) > math.ulp(pred):
            return False
    return True


# ------------------------------------------------------------------------------------------------ helpers
class _State:
    def __init__(self, rec):
        self.rec = rec
        self.unknown = {}

    def violation(self, monitor, kind, msg, witness, exc=None):
        key = (monitor, kind)
        if self.unknown.get(key, 0) >= MAX_UNKNOWN_PER_KIND:
            self.rec.add('violations_not_recorded_after_cap')
            return
        fid = self.rec.violation(monitor, kind, msg, witness, exc=exc)
        if not fid:
            self.unknown[key] = self.unknown.get(key, 0) + 1


def report_value_mismatches(st, monitor, mism, context):
    """mism: list of (position, word, observed float, expected float).  Every mismatch goes into some witness (chunks of 256)
    so that a classifier can never accept a violation that hides a different mismatch."""
    for at in range(0, len(mism), CHUNK):
        part = mism[at:at + CHUNK]
        pos0, w0, o0, e0 = part[0]
        # diagnostic only: the first mismatch that is off the most common observed/stored ratio of this chunk
        ratios = [round(o / e, 10) if e else None for _, _, o, e in part]
        common = max(set(ratios), key=ratios.count)
        odd = next((k for k, r in enumerate(ratios) if r != common), None)
        extra = ''
        if odd is not None:
            po, wo, oo, eo = part[odd]
            extra = '; most are off by the ratio %r, but at %s bytes %s read as %r, stored number is %r' % (common, po, wo.hex(), oo, eo)
        st.violation(monitor, 'value-mismatch',
                     '%d value(s) differ from the IBM number of their four bytes, first at %s: bytes %s read as %r, stored number is %r%s' % (
                         len(part), pos0, w0.hex(), o0, e0, extra),
                     dict(context, common_ratio=common, first_off_ratio=odd, positions=[p for p, _, _, _ in part], words=b''.join(w for _, w, _, _ in part),
                          observed_hex=[float(o).hex() for _, _, o, _ in part], expected_hex=[float(e).hex() for _, _, _, e in part]))


def check_file(st, RB, G, np, data, model, label, path=None, fobj=None):
    """Run the real reader on data and compare everything the property names with the model.
    fobj: an already open (and possibly already used) binary file object holding data."""
    import io
    rec = st.rec
    base = {'file': data if len(data) <= 4096 else data[:4096], 'file_length': len(data), 'case': label}
    try:
        if fobj is not None:
            got = RB.create_bit_frame_array_from_file(fobj)
        elif path is not None:
            with open(path, 'rb') as f:
                got = RB.create_bit_frame_array_from_file(f)
        else:
            got = RB.create_bit_frame_array_from_file(io.BytesIO(data))
    except Exception as e:  # noqa
        rec.mon('structure')
        st.violation('structure', 'reader-raised', 'create_bit_frame_array_from_file raised %s: %s on a well-formed file' % (type(e).__name__, e),
                     dict(base, passes=len(model.passes)), exc=e)
        return
    rec.mon('structure')
    if len(got) != len(model.passes):
        st.violation('structure', 'pass-count', '%d frame arrays for a file of %d log passes' % (len(got), len(model.passes)),
                     dict(base, expected_passes=len(model.passes), got_passes=len(got), markers=model.markers[:60]))
    for pi, (p, b) in enumerate(zip(model.passes, got)):
        ctx = dict(base, log_pass=pi, channels=p.channels, block_frames=p.block_frames, names=p.names_str)
        rec.mon('structure')
        fa = b.frame_array
        names_got = list(b.channel_names)
        if names_got != p.names_str:
            st.violation('structure', 'channel-names', 'pass %d: channel names %r, header has %r' % (pi, names_got, p.names_str), dict(ctx, got=names_got))
            continue
        if fa is None:
            st.violation('structure', 'no-frame-array', 'pass %d has no frame array' % pi, ctx)
            continue
        idents = [c.ident for c in fa.channels]
        if len(idents) != 1 + p.channels or idents[1:] != p.names_str:
            st.violation('structure', 'frame-array-channels', 'pass %d: frame array channels %r, expected the X axis then %r' % (pi, idents, p.names_str),
                         dict(ctx, got=idents))
            continue
        shapes = [tuple(c.array.shape) for c in fa.channels]
        if b.frame_count != p.frames or any(s != (p.frames, 1) for s in shapes):
            st.violation('structure', 'frame-count', 'pass %d: frame_count %r, array shapes %r; %d values were recorded per channel' % (
                pi, b.frame_count, sorted(set(shapes)), p.frames), dict(ctx, frame_count=b.frame_count, shapes=shapes[:25], expected_frames=p.frames))
            continue
        # ---- header floats (the header decoder)
        rec.mon('header_range_exact')
        exp_range = (p.start, p.stop, p.spacing, p.unknown_a, p.unknown_b)
        got_range = tuple(b.bit_log_pass_range)
        if got_range != exp_range:
            st.violation('header_range_exact', 'range', 'pass %d: header range %r, stored numbers are %r' % (pi, got_range, exp_range),
                         dict(ctx, range_words=b''.join(p.range_words), got=[float(x).hex() for x in got_range]))
        # ---- frame values, compared with ==
        mism = []
        nvals = 0
        for c in range(p.channels):
            exp = p.values(c)
            arr = fa.channels[1 + c].array[:, 0]
            nvals += len(exp)
            if len(exp) == 0:
                continue
            bad = np.nonzero(arr != np.array(exp, dtype=np.float64))[0]
            if len(bad):
                words = p.words[c]
                for i in bad.tolist():
                    mism.append(([pi, c, i], words[i], float(arr[i]), exp[i]))
        rec.mon('frame_values_exact', nvals)
        rec.add('values_compared', nvals)
        rec.add('values_equal', nvals - len(mism))
        if mism:
            report_value_mismatches(st, 'frame_values_exact', mism, ctx)
        # ---- X axis
        rec.mon('x_axis', p.frames)
        xs = fa.x_axis.array[:, 0].tolist()
        start, spacing = G.ibm_exact(p.range_words[0]), G.ibm_exact(p.range_words[2])
        sgn = 1 if p.increasing else -1
        for i, xo in enumerate(xs):
            xe = start + sgn * i * spacing
            tol = Fraction(i, 1 << 52) * max(abs(start), abs(xe))
            if xo != xo or xo in (math.inf, -math.inf) or abs(Fraction(xo) - xe) > tol:
                st.violation('x_axis', 'value', 'pass %d: X[%d] = %r, expected start %s %d * spacing = %r (start %r stop %r spacing %r)' % (
                    pi, i, xo, '+' if sgn > 0 else '-', i, float(xe), p.start, p.stop, p.spacing),
                    dict(ctx, index=i, got=float(xo).hex(), expected=float(xe), range_words=b''.join(p.range_words), first_x=xs[:4]))
                break


def run_shard(ctx, prm):
    import io
    import logging
    import numpy as np
    from TotalDepth.BIT import ReadBIT as RB
    from TotalDepth.RP66V1.core import pRepCode, File
    from tdv.gen import bit as G
    logging.disable(logging.CRITICAL)
    rec, rng = ctx.rec, ctx.rng
    st = _State(rec)
    part = prm['part']
    tmpdir = os.environ.get('VERIF_SHARD_TMP')

    # ---- harness self-test: the two exact decoders of the generator agree, and encode/decode round trips
    for _ in range(300):
        w = G.random_word(rng)
        if Fraction(G.ibm_to_float(w)) != G.ibm_exact(w) or G.ibm_exact(G.ibm_encode(G.ibm_exact(w))) != G.ibm_exact(w):
            raise AssertionError('generator self-test failed on %s' % w.hex())

    def differential(words):
        """bytes_to_float and ISINGL on the same bytes against the exact value."""
        for w in words:
            ex = G.ibm_to_float(w)
            a = RB.bytes_to_float(w)
            if a != ex:
                st.violation('bytes_to_float_exact', 'value', 'bytes_to_float(%s) = %r, stored number is %r' % (w.hex(), a, ex),
                             {'word': w, 'got': float(a).hex(), 'expected': ex})
            i = pRepCode.ISINGL(File.LogicalData(w))
            if i != ex:
                st.violation('isingl_exact', 'value', 'ISINGL(%s) = %r, stored number is %r' % (w.hex(), i, ex),
                             {'word': w, 'got': float(i).hex(), 'expected': ex})
        rec.mon('bytes_to_float_exact', len(words))
        rec.mon('isingl_exact', len(words))

    # ---- enumerated decoder sub-space: this shard's 16 sign/exponent bytes x fractions
    words = []
    for b0 in range(16 * part, 16 * part + 16):
        fr = BOUNDARY_FRACTIONS + [rng.getrandbits(24) for _ in range(prm['fractions'])]
        words.extend(bytes([b0]) + f.to_bytes(3, 'big') for f in fr)
    differential(words)
    got = list(RB.gen_floats(b''.join(words)))
    rec.mon('gen_floats_exact', len(words))
    if len(got) != len(words):
        st.violation('gen_floats_exact', 'count', 'gen_floats gave %d values for %d words' % (len(got), len(words)), {'n_words': len(words), 'n_values': len(got)})
    mism = []
    for k, (w, o) in enumerate(zip(words, got)):
        ex = G.ibm_to_float(w)
        if o != ex:
            mism.append((k, w, o, ex))
    if mism:
        report_value_mismatches(st, 'gen_floats_exact', mism, {'case': 'direct gen_floats call on %d words' % len(words)})
    rec.bulk_cases('decoder words: every sign/exponent byte x %d boundary + random fractions' % len(BOUNDARY_FRACTIONS), len(words),
                   0, exhaustive=None,
                   sample={'word': words[5].hex(), 'exact': G.ibm_to_float(words[5]), 'bytes_to_float': RB.bytes_to_float(words[5]), 'gen_floats': got[5] if len(got) > 5 else None})

    # ---- the example file of the repository, expected content from the independent strict reader
    if part == 0:
        from tdv.core import env
        path = os.path.join(env.REPO, 'example_data', 'BIT', 'data', '29_10-_3Z_dwl_DWL_WIRE_1644659.bit')
        with open(path, 'rb') as f:
            data = f.read()
        model = G.decode_file(data)
        rec.mon('example_file')
        rec.case(data, True, classes=['example-file'], sample={'example_file': os.path.basename(path), 'passes': len(model.passes),
                                                                'frames': [p.frames for p in model.passes], 'names': model.passes[0].names_str})
        check_file(st, RB, G, np, data, model, 'example file', path=path)
        for p in model.passes:
            differential(p.range_words)
    else:
        rec.mon('example_file', 0)

    # ---- generated files
    nbig = 1 if ctx.tier == 'quick' else 12
    for n in range(prm['files']):
        if n < nbig:
            # data blocks larger than 64 KiB (block size is bounded only by the TIF marker words)
            nch = rng.choice([1, 7, 16, 20])
            per = 65536 // (4 * nch) + rng.choice([1, 2, 17, 400, 1500])
            bf = [per] * rng.choice([1, 2]) + [rng.randrange(1, per)]
            passes = [G.random_pass(rng, channels=nch, block_frames=bf, unique_values=False)]
            if rng.random() < 0.5:
                passes.append(G.random_pass(rng))
            data, model = G.write_file(passes)
        elif n == nbig or (ctx.tier != 'quick' and n % 97 == 0):
            # more than ten log passes in one file (frame arrays must come back in file order, not in the order of their idents as text)
            data, model = G.write_file([G.random_pass(rng, max_block=8, max_blocks=3) for _ in range(rng.choice([11, 12, 13, 21]))])
        elif n == nbig + 1 or (ctx.tier != 'quick' and n % 97 == 1):
            # a long pass of many small blocks (the example file has 92 blocks; nothing bounds the number)
            nch = rng.choice([1, 2, 3, 5])
            nblk = rng.choice([300, 500, 777])
            full = rng.choice([1, 4, 16])
            bf = [full] * nblk + ([rng.randrange(1, full)] if full > 1 else [])
            passes = [G.random_pass(rng, channels=nch, block_frames=bf, unique_values=False)]
            if rng.random() < 0.5:
                passes.insert(rng.randrange(2), G.random_pass(rng, max_block=8, max_blocks=3))
            data, model = G.write_file(passes)
        elif n % 11 == 4:
            # data blocks whose byte length equals that of the 276-byte first block (1 x 69 or 3 x 23 values) or of a TIF marker
            # (1 x 3 or 3 x 1): a block is the first block of a pass by position only, never by size
            passes = []
            for _ in range(rng.choice([1, 2, 3])):
                nch, fr = rng.choice([(1, 69), (3, 23), (1, 3), (3, 1), (1, 69), (3, 23)])
                k = rng.choice([1, 2, 3])
                bf = rng.choice([[fr] * k, [fr] * k + [rng.randrange(1, fr)] if fr > 1 else [fr] * (k + 1), [rng.randrange(1, 65)] + [fr] * k])
                pm = G.random_pass(rng, channels=nch, block_frames=bf, unique_values=False)
                # a block is the first block of a pass by position, never by content either: zeros (and words that would read
                # as a small channel count) anywhere in a block of header size
                for ch in pm.words:
                    for i in range(len(ch)):
                        if rng.random() < 0.2:
                            ch[i] = rng.choice([b'\x00\x00\x00\x00', b'\x00\x00\x00\x00', b'\x00\x03\x00\x00', b'\x00\x14\x00\x00'])
                passes.append(pm)
            data, model = G.write_file(passes)
        elif n % 11 == 7:
            # a pass of at most one frame whose stop depth equals its start depth (nothing to move towards), among ordinary passes
            passes = [G.random_pass(rng, max_block=8, max_blocks=3) for _ in range(rng.choice([0, 1, 2]))]
            pm = G.random_pass(rng, block_frames=rng.choice([[1], [1], []]))
            pm.range_words[1] = pm.range_words[0]
            passes.insert(rng.randrange(len(passes) + 1), pm)
            data, model = G.write_file(passes)
        elif n % 9 == 0:
            # the same magnitudes with both signs (a curve that swings about zero), within a channel and across passes
            passes = []
            for _ in range(rng.choice([1, 2])):
                pm = G.random_pass(rng, unique_values=False)
                for ch in pm.words:
                    for i in range(1, len(ch), 2):
                        w = ch[i - 1]
                        ch[i] = bytes([w[0] ^ 0x80]) + w[1:]
                passes.append(pm)
            data, model = G.write_file(passes)
        elif n % 5 == 2:
            # channel names over all printable ASCII (lower case, punctuation, right-justified, blank inside)
            data, model = G.random_file(rng, name_alphabet=G.WIDE_NAME_ALPHABET)
        else:
            # a quarter of the passes with fewer than 20 channels carry something other than blanks in the unused name slots
            data, model = G.random_file(rng, unused_slot_fill_p=0.25)
        classes = ['passes=%d' % len(model.passes)]
        if any('name_fill' in p.header_fields for p in model.passes):
            classes.append('unused-name-slots-not-blank')
        if any(len(p.block_frames) >= 300 for p in model.passes):
            classes.append('blocks>=300')
        if any(4 * p.channels * b in (276, 12) for p in model.passes for b in p.block_frames):
            classes.append('data-block-of-276-or-12-bytes')
        if any(p.range_words[0] == p.range_words[1] for p in model.passes):
            classes.append('start==stop(<=1 frame)')
        if any(not all(c in G.NAME_ALPHABET + b' ' for c in nm) or nm[:1] == b' ' for p in model.passes for nm in p.names):
            classes.append('names-any-printable')
        if n % 9 == 0 and n > nbig:
            classes.append('mirrored-signs')
        if any(4 * p.channels * max(p.block_frames or [0]) > 65536 for p in model.passes):
            classes.append('data-block>64KiB')
        nontrivial = False
        for p in model.passes:
            classes.append('down-log' if p.increasing else 'up-log')
            if p.short_last_block():
                classes.append('short-last-block')
                if p.channels >= 2:
                    nontrivial = True
            if not p.block_frames:
                classes.append('pass-without-data')
            elif len(p.block_frames) == 1:
                classes.append('single-block')
            elif len(set(p.block_frames)) > 2:
                classes.append('varying-blocks')
            if p.channels in (1, 20):
                classes.append('channels=%d' % p.channels)
            rec.maxi('max_frames_in_pass', p.frames)
        rec.add('passes', len(model.passes))
        rec.add('file_bytes', len(data))
        sample = None
        if n == 0:
            p = model.passes[0]
            sample = {'file_bytes': len(data), 'passes': len(model.passes), 'pass0': {'names': p.names_str, 'block_frames': p.block_frames,
                      'start': p.start, 'stop': p.stop, 'spacing': p.spacing, 'first_words': [w.hex() for w in (p.words[0][:3] if p.words else [])]}}
        rec.case(data, nontrivial, classes=sorted(set(classes)), sample=sample)
        path = None
        if tmpdir and n % 16 == 0:
            path = os.path.join(tmpdir, 'f%d.bit' % n)
            with open(path, 'wb') as f:
                f.write(data)
            rec.cls('read-from-disk')
        check_file(st, RB, G, np, data, model, 'generated file %d of shard %d' % (n, part), path=path)
        if path:
            os.unlink(path)
        if n % 8 == 5:
            # history: one file object, positioned anywhere, read twice in a row (the reader rewinds it itself)
            rec.cls('same-file-object-read-twice')
            fobj = io.BytesIO(data)
            fobj.seek(rng.randrange(len(data) + 1))
            check_file(st, RB, G, np, data, model, 'generated file %d of shard %d, first read of a used file object' % (n, part), fobj=fobj)
            check_file(st, RB, G, np, data, model, 'generated file %d of shard %d, second read of the same file object' % (n, part), fobj=fobj)
        # differential on the header words and a sample of the data words of this file
        dw = []
        for p in model.passes:
            dw.extend(p.range_words)
            for ch in p.words:
                dw.extend(ch[:8])
        differential(dw)


LEVEL_TEXT = ('Generated BIT files from an independent encoder are read by the real ReadBIT code; pass count, channel names, frame counts, every '
              'frame value (== the exact IBM-360 number of its four bytes), header range and the computed X axis are compared with the model; '
              'bytes_to_float, ISINGL and gen_floats are run on the same bytes.  Sampled, not exhaustive.')
LEVEL_NOTE = ('Trusted: the IBM-360 definition as implemented twice in tdv.gen.bit (Fraction and ldexp, cross-checked), numpy comparison, the harness. '
              'Known finding F10 (gen_floats divides by 0xffffff) is recognised per value from the witness bytes; any other mismatch is reported.')
TECHNIQUE = 'runtime monitoring: model-based differential (independent encoder + exact rational oracle) on the live reader, decoder differential, sys.monitoring mechanism counters'
