"""C17 Unit conversion is consistent: invertible, transitive, dimension-checked."""
import math
import os
from fractions import Fraction as Fr

from tdv.core.findings import classifier

ID = 'C17'
TITLE = 'Unit conversion is consistent: invertible, transitive, dimension-checked'
NATIVE = 'plain'          # LIS.core.EngVal imports LIS.core.RepCode
NEEDS = ('icontract',)
RULE = ('OSDD: every ordered pair of units inside each of the 134 dimensions (102 825 pairs, identity pairs included) x 12 values '
        '(0, +-1, +-pi, 1e-30, 1e30, the offsets of the two units, three random magnitudes) through convert, convert_function, '
        'convert_array and convert_array_inplace (float64; 1-D, 2-D, 3-D, strided, reversed, transposed, big-endian and read-only arrays) and back again; '
        'per first unit also empty, 0-d, float32 and integer arrays and int / numpy scalars; triples sampled (half of them with freshly built Unit objects) '
        '(thorough: all triples of the dimensions with <= 12 units as well); cross-dimension pairs sampled, plus case-variant '
        'dimension names and one unit pair for every ordered pair of the 134 dimensions.  LIS: every pair and triple inside each of the 38 categories, every cross-category pair, generated unknown '
        'names, also through the category object (retUnitConvertCategory(c).convert) and the unit objects (retUnitConvert(u).convert); '
        'EngVal + - / += -= < <= == != > >= getInUnits convert newEngValInUnits newEngValInOpticalUnits with convertible, identical, non-convertible '
        'and unknown units, a third of the operations on the objects left by the previous operation (histories).  A conversion case is non-trivial when the two units differ in scale or offset and the value is not 0; a '
        'refusal case always is.  Distinct by (unit, unit[, unit], value).')
ASSUMPTIONS = [
    'the documented affine map (v - offset_from) * scale_from / scale_to + offset_to evaluated in exact rationals on the float table entries is the reference',
    'rounding bound: 4 * eps * largest magnitude among operands, intermediates and result per conversion (calibrated: worst seen 0.92); composed for round trips and triples by propagating the first error through the exact second map',
    'values whose intermediates leave the normal double range (1e-290 .. 1e290) are outside the asserted set (overflow / subnormal rounding)',
    'dimension identity is exact string equality, as the table uses it; refusal is any instance of the module\'s ExceptionUnits (common.units / LIS.core.Units)',
    'the LIS table is taken from the __RAW_UNIT_MAP literal in the source text (ast), the OSDD table from the JSON file; a disagreement between these and the live tables makes the run inconclusive, it is not a conversion defect',
    'EngVal: units given as bytes; a denominator in the blank unit (only NUL / whitespace in its first four bytes, which Mnem equates) is the documented "treat as a real number" case and is not a refusal; operations on two values in the same unknown unit request no conversion',
    'value None (LIS convert returns 0.0) and in-place conversion of integer arrays (numpy refuses the cast) are outside the quantifier ("all finite values")',
    'float32 arrays: the operations involved are float32 operations; the bound is 8 * 2^-23 * largest magnitude, asserted while all magnitudes stay within 1e-30 .. 1e30',
    'newEngValInOpticalUnits: which unit is the "optical" one is not asserted, only that value and unit of the result describe the same quantity',
    'retUnitConvert(u).convert(v, other) between unit objects of different categories is the documented internal no-check path and is not asserted',
]
MECHANISMS = [
    ('TotalDepth.common.units', '_convert'), ('TotalDepth.common.units', 'convert'), ('TotalDepth.common.units', 'convert_function'),
    ('TotalDepth.common.units', 'convert_array'), ('TotalDepth.common.units', 'convert_array_inplace'),
    ('TotalDepth.common.units', 'same_dimension'),
    ('TotalDepth.LIS.core.Units', 'convert'), ('TotalDepth.LIS.core.Units', 'UnitConvert.convert'),
    ('TotalDepth.LIS.core.Units', 'UnitConvertCategory.unitConvertor'),
    ('TotalDepth.LIS.core.EngVal', 'EngVal.getInUnits'), ('TotalDepth.LIS.core.EngVal', 'EngVal.__add__'),
    ('TotalDepth.LIS.core.EngVal', 'EngVal.__truediv__'), ('TotalDepth.LIS.core.EngVal', 'EngVal.__lt__'),
    ('TotalDepth.LIS.core.EngVal', 'EngVal.__eq__'),
]
REQUIRED_MONITORS = ['affine_oracle', 'round_trip', 'identity', 'transitivity', 'array_vs_scalar', 'array_kinds', 'large_array_vs_pieces', 'refusal_cross_dimension',
                     'lis_affine_oracle', 'lis_round_trip', 'lis_transitivity', 'lis_refusal',
                     'array_result_kept_after_next_call', 'engval_arithmetic', 'engval_comparison', 'engval_refusal', 'engval_history', 'lis_other_entry_points', 'eventlog:LIS.Units.convert']
MIN_NONTRIVIAL = {'quick': 700000, 'thorough': 3500000}
TIMEOUT_S = {'quick': 400, 'thorough': 3000}
NSHARDS = 16
N_TRIPLES = {'quick': 20000, 'thorough': 1000000}
N_CROSS = {'quick': 5000, 'thorough': 100000}
N_ENGVAL = {'quick': 16000, 'thorough': 320000}
N_UNKNOWN = {'quick': 3200, 'thorough': 32000}
ALL_TRIPLES_MAX_DIM = 12
KNOWN_CAP = 25
EPS = 2.0 ** -52
K = 4


def plan(tier, seed):
    return [{'part': i, 'parts': NSHARDS, 'n_triples': N_TRIPLES[tier] // NSHARDS, 'n_cross': N_CROSS[tier] // NSHARDS,
             'n_engval': N_ENGVAL[tier] // NSHARDS, 'n_unknown': N_UNKNOWN[tier] // NSHARDS,
             'all_triples': tier == 'thorough', 'extra_values': 36 if tier == 'thorough' else 0} for i in range(NSHARDS)]


# ---------------------------------------------------------------------------------------------- known finding F12
def _blind_affine(v, a, b):
    """What convert_array computes when it does not look at the dimensions (same operation order, IEEE doubles)."""
    if a['offset'] != 0.0 or b['offset'] != 0.0:
        return ((v - a['offset']) * a['scale']) / b['scale'] + b['offset']
    return v * (a['scale'] / b['scale'])


def _f12(w):
    a, b = w.get('unit_from'), w.get('unit_to')
    if w.get('function') not in ('convert_array', 'convert_array_inplace') or not a or not b:
        return False
    if a['dimension'] == b['dimension'] or not w.get('scalar_convert_refused'):
        return False
    vals, got = w.get('values'), w.get('got')
    if not isinstance(vals, list) or not isinstance(got, list) or len(vals) != len(got) or not vals:
        return False
    return all(isinstance(g, float) and g == _blind_affine(v, a, b) for v, g in zip(vals, got))


@classifier('c17_array_no_dimension_check')
def _c_f12(v):
    return v.get('monitor') == 'refusal_cross_dimension' and v.get('kind') == 'returned-numbers' and _f12(v['witness'])


class Reporter:
    """rec.violation with a per-shard cap on instances of an already recognised mechanism and on any one kind."""

    def __init__(self, rec):
        self.rec = rec
        self.known = {}
        self.kinds = {}

    def __call__(self, monitor, kind, msg, witness, exc=None, known_as=None):
        if known_as:
            n = self.known.get(known_as, 0)
            self.known[known_as] = n + 1
            self.rec.add('known_mechanism_instances:' + known_as)
            if n >= KNOWN_CAP:
                return
        else:
            n = self.kinds.get((monitor, kind), 0)
            self.kinds[(monitor, kind)] = n + 1
            if n >= 20:
                self.rec.add('unrecorded_violations:%s/%s' % (monitor, kind))
                return
        self.rec.violation(monitor, kind, msg, witness, exc=exc)


def is_blank(name):
    """The dimensionless unit as EngVal sees it: nothing but NUL / whitespace in the first four bytes."""
    if isinstance(name, str):
        name = name.encode('ascii', 'replace')
    return all(c in b'\x00 \t\n\r\x0b\x0c' for c in name[:4])


def udesc(u):
    return {'code': u.code if isinstance(u.code, str) else repr(u.code), 'dimension': u.group if isinstance(u.group, str) else repr(u.group),
            'scale': u.fscale, 'offset': u.foffset}


def pair_values(rng, a, b, extra=0):
    vs = [0.0, 1.0, -1.0, math.pi, -math.pi, 1e-30, 1e30,
          a.foffset if a.foffset else 273.15,
          -b.foffset if b.foffset else -459.67,
          rng.uniform(-1000.0, 1000.0),
          rng.choice([-1.0, 1.0]) * 10.0 ** rng.uniform(-12, 12),
          float(rng.randrange(-10 ** 6, 10 ** 6))]
    for i in range(extra):           # thorough tier: more of "all finite values"
        k = i % 4
        if k == 0:
            vs.append(rng.choice([-1.0, 1.0]) * 10.0 ** rng.uniform(-30, 30))
        elif k == 1:
            vs.append(rng.uniform(-1.0, 1.0) * 10.0 ** rng.randrange(0, 7))
        elif k == 2:
            vs.append(math.ldexp(rng.random() + 0.5, rng.randrange(-60, 60)) * rng.choice([-1, 1]))
        else:       # next to an offset: heavy cancellation in v - offset
            o = a.foffset or b.foffset or 273.15
            vs.append(o * (1.0 + rng.choice([-1, 1]) * 2.0 ** -rng.randrange(20, 52)))
    return vs


def few_values(rng, a, n):
    pool = [1.0, -1.0, math.pi, a.foffset if a.foffset else 100.0, rng.uniform(-1000.0, 1000.0),
            rng.choice([-1.0, 1.0]) * 10.0 ** rng.uniform(-9, 9), float(rng.randrange(-10 ** 5, 10 ** 5)), 0.0]
    rng.shuffle(pool)
    return pool[:n]


# ---------------------------------------------------------------------------------------------- OSDD
class Osdd:
    def __init__(self, ctx, rep):
        from TotalDepth.common import units as U
        import numpy as np
        from tdv.ref import units as R
        from tdv.core import env
        self.U, self.np, self.R, self.rec, self.rep, self.rng = U, np, R, ctx.rec, rep, ctx.rng
        path = os.path.join(env.REPO, 'src', 'TotalDepth', 'common', 'data', 'osdd_units.json')
        self.by_code, self.by_dim = R.load_osdd(path)
        self.real = U.read_osdd_static_data()
        self.ok = True
        if set(self.real) != set(self.by_code):
            self.ok = False
            ctx.rec.inconclusive_because('live OSDD table has %d units, the JSON file %d' % (len(self.real), len(self.by_code)))
        self.pairs = {}
        self.extra = 0
        ctx.rec.note('osdd_table', '%d units, %d dimensions, %d ordered in-dimension pairs' % (
            len(self.by_code), len(self.by_dim), sum(len(v) ** 2 for v in self.by_dim.values())))

    def pair(self, a, b):
        k = (a.index, b.index)
        p = self.pairs.get(k)
        if p is None:
            p = self.pairs[k] = self.R.Pair(a, b)
            if len(self.pairs) > 60000:
                self.pairs.clear()
                self.pairs[k] = p
        return p

    def large_arrays(self, n_cases):
        """Array conversion of large arrays (beyond any block / buffer size an implementation might use) against the same
        conversion applied to small pieces, which the pair sweep validates against the exact oracle."""
        U, np, rng = self.U, self.np, self.rng
        dims = [us for us in self.by_dim.values() if len(us) >= 2]
        for _ in range(n_cases):
            us = rng.choice(dims)
            a, b = rng.choice(us), rng.choice(us)
            ua, ub = self.real[a.code], self.real[b.code]
            n = rng.choice([65535, 65536, 65537, 70001, 131071, 131073, 262145, 300001])
            shape = rng.choice([(n,), (n,), (n // 7 + 1, 7), (3, n // 3 + 1)])
            src = np.array([rng.uniform(-1000, 5000) for _ in range(997)])
            big = np.resize(src, shape).astype('float64')
            flat = big.reshape(-1)
            piece = np.concatenate([U.convert_array(flat[i:i + 1000].copy(), ua, ub) for i in range(0, flat.size, 1000)])
            self.rec.mon('large_array_vs_pieces')
            self.rec.case(('large-array', a.code, b.code, shape), True, classes=['large-array'])
            out = U.convert_array(big.copy(), ua, ub)
            inp = big.copy()
            U.convert_array_inplace(inp, ua, ub)
            for fname, got in (('convert_array', out), ('convert_array_inplace', inp)):
                g = np.asarray(got).reshape(-1)
                if g.shape == piece.shape:
                    bad = np.nonzero(~(np.abs(g - piece) <= 16 * np.finfo(float).eps * np.maximum(np.abs(piece), np.abs(flat))))[0]
                else:
                    bad = [0]
                if len(bad) or np.asarray(got).shape != big.shape:
                    i = int(bad[0])
                    self.rep('large_array_vs_pieces', fname, '%s(%s -> %s) on %d elements (shape %s): %d elements differ from the piecewise conversion, first at flat index %d: %r, pieces give %r (input %r)' % (
                        fname, a.code, b.code, flat.size, shape, len(bad), i, float(g[i]) if len(g) > i else None, float(piece[i]), float(flat[i])),
                             {'function': fname, 'from': a.code, 'to': b.code, 'shape': list(shape), 'bad_indexes': [int(x) for x in bad[:10]], 'size': int(flat.size)})

    def verdict(self, monitor, fname, a, b, v, r, e, M, cache=None):
        """One result against the exact value; returns the error in eps*M."""
        if cache is not None and r in cache:
            return cache[r]
        err = self.R.err_eps(r, e, M)
        if cache is not None and isinstance(r, float):
            cache[r] = err
        if err > K:
            self.rep(monitor, fname, '%s(%r, %s -> %s) = %r, exact %.17g: off by %.3g eps of the largest magnitude %.3g (bound %d)' % (
                fname, v, a.code, b.code, r, float(e), err, M, K),
                {'function': fname, 'unit_from': udesc(a), 'unit_to': udesc(b), 'value': v, 'got': r, 'exact': float(e),
                 'err_eps': err, 'magnitude': M})
        return err

    # -- all ordered pairs with first unit a
    def pairs_from(self, a, shape_sel):
        U, np, rec, rng = self.U, self.np, self.rec, self.rng
        ua = self.real[a.code]
        evals = nt = 0
        worst = 0.0
        for b in self.by_dim[a.group]:
            ub = self.real[b.code]
            P = self.pair(a, b)
            Pb = self.pair(b, a)
            vals = pair_values(rng, a, b, self.extra)
            trivial_pair = a.fscale == b.fscale and a.foffset == b.foffset
            try:
                fn = U.convert_function(ua, ub)
                scal = [U.convert(v, ua, ub) for v in vals]
                fres = [fn(v) for v in vals]
                arr = np.array(vals, dtype=np.float64)
                nv = len(vals)                 # a multiple of 12
                shape_sel += 1
                mode = shape_sel % 8
                guard = None
                if mode == 1:
                    src = arr.reshape(3, nv // 3)
                elif mode == 2:
                    guard = np.full(2 * nv, 7.25)
                    guard[::2] = arr
                    src = guard[::2]               # a strided view: its neighbours must stay 7.25
                elif mode == 3:
                    src = np.asfortranarray(arr.reshape(4, nv // 4))
                elif mode == 4:
                    src = arr[::-1].copy()[::-1]   # a view with a negative stride, same logical order
                elif mode == 5:
                    src = arr.astype('>f8')        # big-endian, as read from a file
                elif mode == 6:
                    src = arr.reshape(2, 2, nv // 4)
                elif mode == 7:
                    src = arr.copy()
                    src.flags.writeable = False    # the copying conversion needs no write access
                else:
                    src = arr
                rec.cls('array-layout:' + ('1-D', '2-D', 'strided-view', 'fortran-2-D', 'negative-stride-view', 'big-endian', '3-D', 'read-only-input')[mode])
                keep = src.copy(order='K')
                out = U.convert_array(src, ua, ub)
                copy_ok = np.array_equal(src, keep) and out is not src
                # reshape(-1) walks the logical (row-major) order whatever the memory layout: same order as vals
                ares = [float(x) for x in np.asarray(out).reshape(-1)]
                # another channel of the same shape through the same pair (as a caller converting the channels of one log does): the
                # earlier result is the caller's own array and stays what it was
                other = U.convert_array(keep * 0.5 + 3.0, ua, ub)
                still = [float(x) for x in np.asarray(out).reshape(-1)]
                rec.mon('array_result_kept_after_next_call')
                if repr(still) != repr(ares) or np.shares_memory(out, other):
                    self.rep('array_result_kept_after_next_call', 'earlier-result-changed',
                             'convert_array(%s -> %s): after converting another array of the same shape the first result %s' % (
                                 a.code, b.code, 'shares memory with the second' if np.shares_memory(out, other) else 'holds other values'),
                             {'unit_from': udesc(a), 'unit_to': udesc(b), 'values': vals, 'first_result': ares[:8], 'first_result_now': still[:8]})
                inp = keep.copy(order='K') if mode not in (2, 4) else src
                ret = U.convert_array_inplace(inp, ua, ub)
                ires = [float(x) for x in np.asarray(inp).reshape(-1)]
                back = [U.convert(r, ub, ua) for r in scal]
            except Exception as e:  # noqa
                self.rep('affine_oracle', 'raises', 'conversion %s -> %s raised %s: %s' % (a.code, b.code, type(e).__name__, e),
                         {'unit_from': udesc(a), 'unit_to': udesc(b), 'values': vals}, exc=e)
                continue
            if len(ares) != nv or len(ires) != nv:
                self.rep('array_vs_scalar', 'shape', 'array conversion of %d values returned %d / %d values' % (nv, len(ares), len(ires)),
                         {'unit_from': udesc(a), 'unit_to': udesc(b), 'values': vals})
                continue
            if not copy_ok:
                self.rep('array_vs_scalar', 'copy-mutated-input', 'convert_array(%s -> %s) changed or returned its argument' % (a.code, b.code),
                         {'unit_from': udesc(a), 'unit_to': udesc(b), 'values': vals})
            if ret is not None and ret is not inp:
                self.rep('array_vs_scalar', 'inplace-returned', 'convert_array_inplace returned %r' % type(ret).__name__,
                         {'unit_from': udesc(a), 'unit_to': udesc(b)})
            if guard is not None and not bool((guard[1::2] == 7.25).all()):
                self.rep('array_vs_scalar', 'inplace-wrote-outside-view', 'convert_array_inplace on a strided view changed elements outside it',
                         {'unit_from': udesc(a), 'unit_to': udesc(b), 'values': vals})
            for i, v in enumerate(vals):
                e = P.exact(v)
                if not P.in_range(v, e):
                    rec.add('skipped_out_of_normal_range')
                    continue
                M = P.magnitude(v, e)
                cache = {}
                rec.mon('affine_oracle', 4)
                errs = (self.verdict('affine_oracle', 'convert', a, b, v, scal[i], e, M, cache),
                        self.verdict('affine_oracle', 'convert_function', a, b, v, fres[i], e, M, cache),
                        self.verdict('affine_oracle', 'convert_array', a, b, v, ares[i], e, M, cache),
                        self.verdict('affine_oracle', 'convert_array_inplace', a, b, v, ires[i], e, M, cache))
                w = max(errs)
                if w > worst and w != float('inf'):
                    worst = w
                if a is b:
                    rec.mon('identity')
                # array against scalar
                rec.mon('array_vs_scalar', 2)
                for name, got in (('convert_array', ares[i]), ('convert_array_inplace', ires[i])):
                    if got == scal[i]:
                        rec.add('array_bit_equal_to_scalar')
                    elif not (abs(got - scal[i]) <= 2 * EPS * M * (1 + 1e-9)):
                        self.rep('array_vs_scalar', name, '%s(%r, %s -> %s)=%r but scalar convert gives %r' % (name, v, a.code, b.code, got, scal[i]),
                                 {'function': name, 'unit_from': udesc(a), 'unit_to': udesc(b), 'value': v, 'got': got, 'scalar': scal[i], 'magnitude': M})
                # round trip
                if max(errs) <= K:
                    rec.mon('round_trip')
                    Mb = Pb.magnitude(scal[i], v)
                    bound = K * EPS * (Mb + M * Pb.fratio) * (1 + 1e-6)
                    d = float(abs(Fr(back[i]) - Fr(v))) if math.isfinite(back[i]) else float('inf')
                    if d > bound:
                        self.rep('round_trip', 'convert', 'convert(convert(%r, %s -> %s), back) = %r: off by %.3g, bound %.3g' % (v, a.code, b.code, back[i], d, bound),
                                 {'unit_from': udesc(a), 'unit_to': udesc(b), 'value': v, 'there': scal[i], 'back': back[i], 'bound': bound})
                    elif bound:
                        rec.maxi('max_round_trip_fraction_of_bound', d / bound)
                evals += 1
                if not trivial_pair and v != 0:
                    nt += 1
        rec.maxi('max_err_eps_of_magnitude_osdd', worst)
        return evals, nt, shape_sel

    def array_kinds(self, a, b):
        """Array and scalar kinds the pair sweep does not use: empty, 0-d, float32 and integer arrays; int and numpy scalars."""
        U, np, rec, rng = self.U, self.np, self.rec, self.rng
        ua, ub = self.real[a.code], self.real[b.code]
        P = self.pair(a, b)
        rec.mon('array_kinds')
        rec.case(('array-kinds', a.code, b.code), a.fscale != b.fscale or a.foffset != b.foffset, classes=['array-kinds'])
        w0 = {'unit_from': udesc(a), 'unit_to': udesc(b)}
        try:
            # empty arrays keep their shape
            for shape in ((0,), (0, 3)):
                e = np.zeros(shape)
                out = U.convert_array(e, ua, ub)
                U.convert_array_inplace(e, ua, ub)
                if np.asarray(out).shape != shape or e.shape != shape:
                    self.rep('array_kinds', 'empty', 'conversion of an empty array of shape %r gives shape %r' % (shape, np.asarray(out).shape), dict(w0, shape=list(shape)))
            vals = [1.0, -2.5, 100.25, 1234.5, float(rng.randrange(-4000, 4000)) / 8]
            exact = [P.exact(v) for v in vals]
            ok = [P.in_range(v, e) for v, e in zip(vals, exact)]
            mags = [P.magnitude(v, e) for v, e in zip(vals, exact)]
            # 0-d arrays and numpy / int scalars
            for v, e, M, fine in zip(vals, exact, mags, ok):
                if not fine:
                    continue
                z = np.array(v)
                zi = np.array(v)
                U.convert_array_inplace(zi, ua, ub)
                got = {'convert_array(0-d)': float(U.convert_array(z, ua, ub)), 'convert_array_inplace(0-d)': float(zi),
                       'convert(numpy.float64)': float(U.convert(np.float64(v), ua, ub)), 'convert_function(numpy.float64)': float(U.convert_function(ua, ub)(np.float64(v)))}
                if v == int(v):
                    got['convert(int)'] = float(U.convert(int(v), ua, ub))
                for name, r in got.items():
                    self.verdict('array_kinds', name, a, b, v, r, e, M)
            # integer array through the copying conversion
            iv = [0, 1, -3, 1000, rng.randrange(-10 ** 6, 10 ** 6)]
            out = U.convert_array(np.array(iv, dtype=np.int64), ua, ub)
            for v, r in zip(iv, [float(x) for x in np.asarray(out).reshape(-1)]):
                e = P.exact(v)
                if P.in_range(float(v), e):
                    self.verdict('array_kinds', 'convert_array(int64 array)', a, b, v, r, e, P.magnitude(float(v), e))
            # float32 arrays: float32 operations, float32 bound
            f32 = np.array(vals, dtype=np.float32)
            out = U.convert_array(f32.copy(), ua, ub)
            inp = f32.copy()
            U.convert_array_inplace(inp, ua, ub)
            for name, arr in (('convert_array(float32 array)', out), ('convert_array_inplace(float32 array)', inp)):
                res = [float(x) for x in np.asarray(arr).reshape(-1)]
                if len(res) != len(vals):
                    self.rep('array_kinds', 'shape', '%s returned %d values for %d' % (name, len(res), len(vals)), w0)
                    continue
                for v, r, e, M in zip(vals, res, exact, mags):
                    t1 = abs(v - a.foffset)
                    small = min([x for x in (abs(v), t1, t1 * a.fscale, t1 * P.fratio, abs(float(e)), a.fscale, b.fscale, P.fratio) if x] or [1.0])
                    if not (max(M, a.fscale, b.fscale, P.fratio, t1 * a.fscale) < 1e30 and small > 1e-30):
                        rec.add('float32_skipped_out_of_range')
                        continue
                    err32 = self.R.err_eps(r, e, M) * EPS / 2.0 ** -23
                    rec.maxi('max_err_eps32_of_magnitude', err32 if err32 != float('inf') else 0.0)
                    if err32 > 8:
                        self.rep('array_kinds', name, '%s(%r, %s -> %s) = %r, exact %.9g: off by %.3g float32 eps of the largest magnitude %.3g (bound 8)' % (
                            name, v, a.code, b.code, r, float(e), err32, M), dict(w0, function=name, value=v, got=r, exact=float(e), err_eps32=err32, magnitude=M))
        except Exception as e:  # noqa
            self.rep('array_kinds', 'raises', 'conversion %s -> %s of an empty / 0-d / float32 / integer array or a numpy scalar raised %s: %s' % (a.code, b.code, type(e).__name__, e), w0, exc=e)

    def triple(self, a, b, c, vals):
        U, rec = self.U, self.rec
        ua, ub, uc = self.real[a.code], self.real[b.code], self.real[c.code]
        fresh = self.rng.random() < 0.5
        if fresh:
            rec.cls('osdd-triple-with-fresh-unit-objects')
        Pab, Pac, Pcb = self.pair(a, b), self.pair(a, c), self.pair(c, b)
        n = 0
        for v in vals:
            try:
                if fresh:          # equal content, new objects every time (short-lived: their ids get recycled)
                    ua, ub, uc = U.Unit(*tuple(self.real[a.code])), U.Unit(*tuple(self.real[b.code])), U.Unit(*tuple(self.real[c.code]))
                r1 = U.convert(v, ua, uc)
                r2 = U.convert(r1, uc, ub)
                rd = U.convert(v, ua, ub)
            except Exception as e:  # noqa
                self.rep('transitivity', 'raises', 'conversion %s -> %s -> %s raised %s' % (a.code, c.code, b.code, type(e).__name__),
                         {'unit_from': udesc(a), 'unit_via': udesc(c), 'unit_to': udesc(b), 'value': v}, exc=e)
                continue
            e = Pab.exact(v)
            e1 = Pac.exact(v)
            if not (Pab.in_range(v, e) and Pac.in_range(v, e1) and Pcb.in_range(r1, e)):
                rec.add('skipped_out_of_normal_range')
                continue
            rec.mon('transitivity')
            Mab, Mac, Mcb = Pab.magnitude(v, e), Pac.magnitude(v, e1), Pcb.magnitude(r1, e)
            b_direct = K * EPS * Mab
            b_via = K * EPS * (Mcb + Mac * Pcb.fratio) * (1 + 1e-6)
            d_direct = float(abs(Fr(rd) - e))
            d_via = float(abs(Fr(r2) - e))
            w = {'unit_from': udesc(a), 'unit_via': udesc(c), 'unit_to': udesc(b), 'value': v, 'direct': rd, 'via': r2, 'exact': float(e)}
            if d_direct > b_direct:
                self.rep('transitivity', 'direct', 'convert(%r, %s -> %s)=%r exact %.17g' % (v, a.code, b.code, rd, float(e)), dict(w, bound=b_direct))
            if d_via > b_via:
                self.rep('transitivity', 'via', 'convert(%r, %s -> %s -> %s)=%r but direct exact is %.17g: off by %.3g, bound %.3g' % (
                    v, a.code, c.code, b.code, r2, float(e), d_via, b_via), dict(w, bound=b_via))
            if float(abs(Fr(r2) - Fr(rd))) > b_direct + b_via:
                self.rep('transitivity', 'via-vs-direct', 'via %s: %r, direct: %r' % (c.code, r2, rd), dict(w, bound=b_direct + b_via))
            n += 1
        return n

    def cross(self, a, b, klass, ua=None, ub=None):
        """a, b: RefUnits of different dimension.  Every entry point must refuse."""
        U, np, rec = self.U, self.np, self.rec
        ua = ua or self.real[a.code]
        ub = ub or self.real[b.code]
        if self.rng.random() < 0.3:
            ua, ub = U.Unit(*tuple(ua)), U.Unit(*tuple(ub))
        vals = [0.0, 1.0, -2.5, 1000.0]
        w = {'unit_from': udesc(a), 'unit_to': udesc(b), 'values': vals, 'class': klass}
        if ua.dimension != a.group:
            w['unit_from'] = dict(w['unit_from'], dimension=ua.dimension)
        if ub.dimension != b.group:
            w['unit_to'] = dict(w['unit_to'], dimension=ub.dimension)
        scalar_refused = False
        outcomes = []
        for fname in ('convert', 'convert_function', 'convert_array', 'convert_array_inplace'):
            rec.mon('refusal_cross_dimension')
            got = None
            try:
                if fname == 'convert':
                    got = [U.convert(v, ua, ub) for v in vals]
                elif fname == 'convert_function':
                    f = U.convert_function(ua, ub)
                    got = [f(v) for v in vals]
                elif fname == 'convert_array':
                    got = [float(x) for x in U.convert_array(np.array(vals), ua, ub)]
                else:
                    arr = np.array(vals)
                    U.convert_array_inplace(arr, ua, ub)
                    got = [float(x) for x in arr]
            except U.ExceptionUnits as e:
                rec.cls('osdd-refusal:' + type(e).__name__)
                if fname == 'convert':
                    scalar_refused = True
                continue
            except Exception as e:  # noqa
                self.rep('refusal_cross_dimension', 'wrong-exception', '%s(%s [%s] -> %s [%s]) raised %s, not the units error' % (
                    fname, a.code, w['unit_from']['dimension'], b.code, w['unit_to']['dimension'], type(e).__name__), dict(w, function=fname), exc=e)
                continue
            outcomes.append((fname, got))
        for fname, got in outcomes:
            ww = dict(w, function=fname, got=got, scalar_convert_refused=scalar_refused)
            self.rep('refusal_cross_dimension', 'returned-numbers', '%s(%r, %s [%s] -> %s [%s]) returned %r instead of raising ExceptionUnits' % (
                fname, vals, a.code, w['unit_from']['dimension'], b.code, w['unit_to']['dimension'], got), ww,
                known_as='F12-array-no-dimension-check' if _f12(ww) else None)


# ---------------------------------------------------------------------------------------------- LIS
class Lis:
    def __init__(self, ctx, rep):
        from TotalDepth.LIS.core import Units as LU
        from TotalDepth.LIS.core import EngVal as EV
        from tdv.ref import units as R
        from tdv.core import env
        self.LU, self.EV, self.R, self.rec, self.rep, self.rng = LU, EV, R, ctx.rec, rep, ctx.rng
        self.by_name, self.by_cat = R.load_lis(os.path.join(env.REPO, 'src', 'TotalDepth', 'LIS', 'core', 'Units.py'))
        live = set(LU.units())
        if live != set(self.by_name) or any(LU.category(u) != self.by_name[u].group for u in live & set(self.by_name)):
            ctx.rec.inconclusive_because('live LIS unit table differs from the literal in the source (%d vs %d units)' % (len(live), len(self.by_name)))
        ctx.rec.note('lis_table', '%d units, %d categories, %d ordered in-category pairs, %d triples' % (
            len(self.by_name), len(self.by_cat), sum(len(v) ** 2 for v in self.by_cat.values()), sum(len(v) ** 3 for v in self.by_cat.values())))
        self.pairs = {}
        # M1: event log at the client boundary EngVal -> Units.convert (attribute replacement, no repo edit)
        self.log = []
        orig = LU.convert
        log = self.log

        def logged_convert(v, u_1, u_2):
            ev = {'args': (v, u_1, u_2)}
            log.append(ev)
            try:
                r = orig(v, u_1, u_2)
            except BaseException as e:
                ev['exc'] = e
                raise
            ev['result'] = r
            return r
        self.orig_convert = orig
        LU.convert = logged_convert

    def pair(self, a, b):
        k = (a.index, b.index)
        p = self.pairs.get(k)
        if p is None:
            p = self.pairs[k] = self.R.Pair(a, b)
        return p

    def check(self, monitor, what, a, b, v, r, e, M):
        err = self.R.err_eps(r, e, M)
        if err > K:
            self.rep(monitor, what, '%s(%r, %r -> %r) = %r, exact %.17g: off by %.3g eps of the largest magnitude %.3g' % (
                what, v, a.code, b.code, r, float(e), err, M),
                {'function': what, 'unit_from': udesc(a), 'unit_to': udesc(b), 'value': v, 'got': r, 'exact': float(e), 'err_eps': err})
        return err

    def all_pairs(self, part, parts):
        LU, rec, rng = self.LU, self.rec, self.rng
        todo = [(a, b) for us in self.by_cat.values() for a in us for b in us][part::parts]
        evals = nt = 0
        worst = 0.0
        for a, b in todo:
            P, Pb = self.pair(a, b), self.pair(b, a)
            for v in pair_values(rng, a, b) + [7, -3]:
                try:
                    r = LU.convert(v, a.code, b.code)
                    back = LU.convert(r, b.code, a.code)
                except Exception as e:  # noqa
                    self.rep('lis_affine_oracle', 'raises', 'LIS convert(%r, %r, %r) raised %s' % (v, a.code, b.code, type(e).__name__),
                             {'unit_from': udesc(a), 'unit_to': udesc(b), 'value': v}, exc=e)
                    continue
                e = P.exact(v)
                if not P.in_range(v, e):
                    rec.add('skipped_out_of_normal_range')
                    continue
                M = P.magnitude(v, e)
                rec.mon('lis_affine_oracle')
                err = self.check('lis_affine_oracle', 'LIS.Units.convert', a, b, v, r, e, M)
                worst = max(worst, err if err != float('inf') else 0)
                if err <= K:
                    rec.mon('lis_round_trip')
                    bound = K * EPS * (Pb.magnitude(r, v) + M * Pb.fratio) * (1 + 1e-6)
                    d = float(abs(Fr(back) - Fr(v)))
                    if d > bound:
                        self.rep('lis_round_trip', 'convert', 'LIS convert there and back (%r, %r <-> %r) = %r: off by %.3g, bound %.3g' % (v, a.code, b.code, back, d, bound),
                                 {'unit_from': udesc(a), 'unit_to': udesc(b), 'value': v, 'there': r, 'back': back, 'bound': bound})
                evals += 1
                nt += (a.fscale != b.fscale or a.foffset != b.foffset) and v != 0
            # the same conversion asked of the category object and of the unit objects (public: retUnitConvertCategory, retUnitConvert)
            v = rng.choice([1.0, -2.5, 1234.5, rng.uniform(-1000.0, 1000.0)])
            e = P.exact(v)
            if P.in_range(v, e):
                rec.mon('lis_other_entry_points', 2)
                try:
                    r1 = LU.retUnitConvertCategory(a.group).convert(v, a.code, b.code)
                    r2 = LU.retUnitConvert(a.code).convert(v, LU.retUnitConvert(b.code))
                except Exception as ex:  # noqa
                    self.rep('lis_other_entry_points', 'raises', 'LIS conversion %r -> %r through the category / unit objects raised %s' % (a.code, b.code, type(ex).__name__),
                             {'unit_from': udesc(a), 'unit_to': udesc(b), 'value': v}, exc=ex)
                else:
                    M = P.magnitude(v, e)
                    self.check('lis_other_entry_points', 'retUnitConvertCategory(c).convert', a, b, v, r1, e, M)
                    self.check('lis_other_entry_points', 'retUnitConvert(u).convert', a, b, v, r2, e, M)
        rec.maxi('max_err_eps_of_magnitude_lis', worst)
        rec.bulk_cases('LIS ordered pairs inside each category x 14 values', evals, nt, exhaustive=True)

    def all_triples(self, part, parts):
        LU, rec, rng = self.LU, self.rec, self.rng
        todo = [(a, b, c) for us in self.by_cat.values() for a in us for b in us for c in us][part::parts]
        evals = nt = 0
        for a, b, c in todo:
            Pab, Pac, Pcb = self.pair(a, b), self.pair(a, c), self.pair(c, b)
            for v in few_values(rng, a, 2):
                try:
                    r1 = LU.convert(v, a.code, c.code)
                    r2 = LU.convert(r1, c.code, b.code)
                    rd = LU.convert(v, a.code, b.code)
                except Exception as e:  # noqa
                    self.rep('lis_transitivity', 'raises', 'LIS convert %r -> %r -> %r raised %s' % (a.code, c.code, b.code, type(e).__name__),
                             {'unit_from': udesc(a), 'unit_via': udesc(c), 'unit_to': udesc(b), 'value': v}, exc=e)
                    continue
                e, e1 = Pab.exact(v), Pac.exact(v)
                if not (Pab.in_range(v, e) and Pac.in_range(v, e1) and Pcb.in_range(r1, e)):
                    continue
                rec.mon('lis_transitivity')
                b_direct = K * EPS * Pab.magnitude(v, e)
                b_via = K * EPS * (Pcb.magnitude(r1, e) + Pac.magnitude(v, e1) * Pcb.fratio) * (1 + 1e-6)
                w = {'unit_from': udesc(a), 'unit_via': udesc(c), 'unit_to': udesc(b), 'value': v, 'direct': rd, 'via': r2, 'exact': float(e)}
                if float(abs(Fr(rd) - e)) > b_direct:
                    self.rep('lis_transitivity', 'direct', 'LIS convert(%r, %r -> %r)=%r exact %.17g' % (v, a.code, b.code, rd, float(e)), dict(w, bound=b_direct))
                if float(abs(Fr(r2) - e)) > b_via:
                    self.rep('lis_transitivity', 'via', 'LIS convert(%r, %r -> %r -> %r)=%r, direct exact %.17g' % (v, a.code, c.code, b.code, r2, float(e)), dict(w, bound=b_via))
                evals += 1
                nt += v != 0 and not (a.fscale == b.fscale == c.fscale and a.foffset == b.foffset == c.foffset)
        rec.bulk_cases('LIS ordered triples inside each category x 2 values', evals, nt, exhaustive=True)

    def refuse(self, what, klass, fn, witness):
        """fn() must raise the LIS units error."""
        LU, rec = self.LU, self.rec
        rec.mon(what)
        try:
            got = fn()
        except LU.ExceptionUnits as e:
            rec.cls('%s:%s:%s' % (what, klass, type(e).__name__))
            return True
        except Exception as e:  # noqa
            self.rep(what, 'wrong-exception:' + klass, '%s raised %s, not the LIS units error' % (witness.get('call'), type(e).__name__), dict(witness, klass=klass), exc=e)
            return False
        val = getattr(got, 'value', got)
        self.rep(what, 'returned:' + klass, '%s returned %r instead of raising ExceptionUnits' % (witness.get('call'), val), dict(witness, klass=klass, got=repr(val)))
        return False

    def cross_category(self, part, parts):
        LU, rec = self.LU, self.rec
        names = list(self.by_name)
        n = 0
        todo = [(a, b) for a in names for b in names if self.by_name[a].group != self.by_name[b].group][part::parts]
        for a, b in todo:
            v = 1.0 + (n % 13)
            self.refuse('lis_refusal', 'cross-category', lambda: LU.convert(v, a, b),
                        {'call': 'LIS convert(%r, %r, %r)' % (v, a, b), 'unit_from': repr(a), 'unit_to': repr(b)})
            if n % 4 == 0:
                ca, cb = self.by_name[a].group, self.by_name[b].group
                self.refuse('lis_refusal', 'cross-category-via-category-object', lambda: LU.retUnitConvertCategory(ca).convert(v, a, b),
                            {'call': 'retUnitConvertCategory(%r).convert(%r, %r, %r)' % (ca, v, a, b), 'unit_from': repr(a), 'unit_to': repr(b)})
                self.refuse('lis_refusal', 'cross-category-via-category-object', lambda: LU.retUnitConvertCategory(cb).convert(v, a, b),
                            {'call': 'retUnitConvertCategory(%r).convert(%r, %r, %r)' % (cb, v, a, b), 'unit_from': repr(a), 'unit_to': repr(b)})
            n += 1
        rec.bulk_cases('LIS ordered cross-category pairs', n, n, exhaustive=True)

    def unknown_name(self):
        rng = self.rng
        known = self.by_name
        while True:
            k = rng.random()
            base = rng.choice(list(known))
            if k < 0.1:
                # unit bytes as they come out of old files: degree / micro / ohm signs of some 8-bit character set, any byte at all
                cand = rng.choice([b'\xb0F  ', b'\xb0C  ', b'\xb5S  ', b'OHM\xea', b'\xf8   ', b'DEG\xb0', bytes(rng.getrandbits(8) | 0x80 for _ in range(4)),
                                   bytes(rng.getrandbits(8) for _ in range(4)), b'FE\xffT', b'\x80\x00\x00\x00'])
            elif k < 0.3:
                cand = bytes(rng.choice(b'ABCDEFGHIJKLMNOPQRSTUVWXYZ0123456789/-. ') for _ in range(4))
            elif k < 0.5:
                cand = base.lower()
            elif k < 0.65:
                cand = base.strip()
            elif k < 0.75:
                cand = base + b' '
            elif k < 0.85:
                cand = base[1:] + base[:1]
            elif k < 0.95:
                cand = base.decode('ascii')          # str instead of bytes
            else:
                cand = rng.choice([b'', b'\x00\x00\x00\x00', b'feet', b'Feet'])
            if cand not in known:
                return cand

    def unknown(self, n):
        LU, rng = self.LU, self.rng
        names = list(self.by_name)
        for i in range(n):
            bad = self.unknown_name()
            good = rng.choice(names)
            v = rng.uniform(-100, 100)
            mode = i % 3
            a, b = (bad, good) if mode == 0 else (good, bad) if mode == 1 else (bad, self.unknown_name())
            self.rec.case(('lis-unknown', repr(a), repr(b)), True, classes=['lis-unknown-' + ('from', 'to', 'both')[mode]])
            self.refuse('lis_refusal', 'unknown-' + ('from', 'to', 'both')[mode], lambda: LU.convert(v, a, b),
                        {'call': 'LIS convert(%r, %r, %r)' % (v, a, b), 'unit_from': repr(a), 'unit_to': repr(b)})

    # -- EngVal
    def engval(self, n):
        EV, LU, rec, rng = self.EV, self.LU, self.rec, self.rng
        E = EV.EngVal
        cats = [us for us in self.by_cat.values()]
        multi = [us for us in cats if len(us) >= 2]
        names = list(self.by_name)
        arith = ['+', '-', '/', '+=', '-=', 'getInUnits', 'newEngValInUnits', 'convert', 'newEngValInOpticalUnits']
        comp = ['<', '<=', '==', '!=', '>', '>=']
        pyop = {'<': lambda x, y: x < y, '<=': lambda x, y: x <= y, '==': lambda x, y: x == y, '!=': lambda x, y: x != y,
                '>': lambda x, y: x > y, '>=': lambda x, y: x >= y}
        log = self.log

        def apply(op, a, b):
            if op == '+':
                return a + b
            if op == '-':
                return a - b
            if op == '/':
                return a / b
            if op == '+=':
                a += b
                return a
            if op == '-=':
                a -= b
                return a
            if op == 'getInUnits':
                return b.getInUnits(a.uom)
            if op == 'newEngValInUnits':
                return b.newEngValInUnits(a.uom)
            if op == 'convert':
                b.convert(a.uom)
                return b
            if op == 'newEngValInOpticalUnits':
                return b.newEngValInOpticalUnits()
            return pyop[op](a, b)

        prev = None

        for i in range(n):
            k = rng.random()
            op = rng.choice(arith + comp)
            # a third of the operations work on the two objects the previous operation left behind (sums accumulated in place,
            # values converted in place): what an object answers must follow from its present value and unit alone
            reuse = None
            if prev is not None and rng.random() < 0.35:
                pa, pb = prev
                ka, kb = self.by_name.get(pa.uom), self.by_name.get(pb.uom)
                fine = lambda x: isinstance(x, float) and math.isfinite(x) and (x == 0 or 1e-9 < abs(x) < 1e12)   # noqa
                if ka is not None and kb is not None and fine(pa.value) and fine(pb.value):
                    reuse = prev
                    if rng.random() < 0.5:
                        reuse = (pb, pa)
                        ka, kb = kb, ka
            prev = None
            if reuse is not None:
                ua, ub = ka, kb
                klass = 'same-unit' if ua is ub else 'convertible' if ua.group == ub.group else 'cross-category'
                rec.mon('engval_history')
            elif k < 0.55:
                us = rng.choice(multi)
                ua, ub = rng.choice(us), rng.choice(us)
                klass = 'convertible' if ua is not ub else 'same-unit'
            elif k < 0.65:
                ua = ub = self.by_name[rng.choice(names)]
                klass = 'same-unit'
            elif k < 0.88:
                ua, ub = self.by_name[rng.choice(names)], self.by_name[rng.choice(names)]
                if ua.group == ub.group:
                    continue
                klass = 'cross-category'
            else:
                klass = 'unknown-unit'
                ua = self.by_name[rng.choice(names)]
                ub = None
            A = rng.choice([rng.uniform(-1000, 1000), float(rng.randrange(-500, 500)), 10.0 ** rng.uniform(-6, 6), 1.0])
            B = rng.choice([rng.uniform(-1000, 1000), float(rng.randrange(-500, 500)), 10.0 ** rng.uniform(-6, 6), 12.0, A])
            if reuse is not None:
                A, B = reuse[0].value, reuse[1].value
            del log[:]
            if klass in ('cross-category', 'unknown-unit'):
                name_a = ua.code
                name_b = ub.code if ub else self.unknown_name()
                if rng.random() < 0.5 and klass == 'unknown-unit':
                    name_a, name_b = name_b, name_a           # the unknown unit is the target
                if name_a == name_b:
                    continue
                if op == '/' and is_blank(name_b):
                    continue      # documented: a blank denominator is a plain number (Mnem: NUL / space padding is blank)
                if op == 'newEngValInOpticalUnits':
                    continue
                a, b = reuse if reuse is not None else (E(A, name_a), E(B, name_b))
                if reuse is not None:
                    prev = reuse
                rec.case(('engval', op, repr(name_a), repr(name_b)) + ((A, B) if reuse is not None else ()), True, classes=['engval-' + klass] + (['engval-history'] if reuse is not None else []))
                ok = self.refuse('engval_refusal', klass + ':' + ('cmp' if op in comp else 'arith'), lambda: apply(op, a, b),
                                 {'call': 'EngVal(%r, %r) %s EngVal(%r, %r)' % (A, name_a, op, B, name_b), 'op': op})
                # a refused operation "never returns a number": neither as a result nor left behind in the operands, which stay what
                # they were (value and unit), so that the same question is refused again
                rec.mon('engval_refusal_leaves_operands')
                if not (a.value == A and a.uom == name_a and b.value == B and b.uom == name_b):
                    self.rep('engval_refusal_leaves_operands', 'operand-changed:' + klass, 'after the refused EngVal(%r, %r) %s EngVal(%r, %r) the operands are EngVal(%r, %r) and EngVal(%r, %r)' % (
                        A, name_a, op, B, name_b, a.value, a.uom, b.value, b.uom), {'op': op, 'before': [[A, repr(name_a)], [B, repr(name_b)]],
                                                                                     'after': [[a.value, repr(a.uom)], [b.value, repr(b.uom)]]})
                    prev = None
                if ok:
                    rec.mon('eventlog:LIS.Units.convert', len(log))
                    if len(log) != 1 or 'exc' not in log[0]:
                        rec.add('engval_refusals_not_from_one_convert_call')
                continue
            # convertible / same unit: model
            a, b = reuse if reuse is not None else (E(A, ua.code), E(B, ub.code))
            if op == '/' and is_blank(ub.code):
                continue
            prev = (a, b)
            rec.case(('engval', op, repr(ua.code), repr(ub.code), A, B), ua is not ub and (ua.fscale != ub.fscale or ua.foffset != ub.foffset),
                     classes=['engval-' + klass] + (['engval-history'] if reuse is not None else []), sample={'expr': 'EngVal(%r, %r) %s EngVal(%r, %r)' % (A, ua.code, op, B, ub.code)} if i < 2 else None)
            if op == 'newEngValInOpticalUnits':
                w = {'op': op, 'b': [B, repr(ub.code)]}
                try:
                    res = apply(op, a, b)
                except Exception as e:  # noqa
                    self.rep('engval_arithmetic', 'raises', 'EngVal(%r, %r).newEngValInOpticalUnits() raised %s' % (B, ub.code, type(e).__name__), w, exc=e)
                    continue
                rec.mon('engval_arithmetic')
                ru = self.by_name.get(res.uom)
                if ru is None or ru.group != ub.group:
                    self.rep('engval_arithmetic', 'optical-units', 'EngVal(%r, %r).newEngValInOpticalUnits() has units %r, not a unit of category %r' % (B, ub.code, res.uom, ub.group), dict(w, got=repr(res.uom)))
                    continue
                Po = self.pair(ub, ru)
                eo = Po.exact(B)
                bound = K * EPS * Po.magnitude(B, eo) if ru is not ub else 0.0
                try:
                    d = float(abs(Fr(res.value) - eo))
                except (TypeError, ValueError, OverflowError):
                    d = float('inf')
                if d > bound or b.value != B or b.uom != ub.code:
                    self.rep('engval_arithmetic', op, 'EngVal(%r, %r).newEngValInOpticalUnits() = %r %r, exact %.17g (the object itself is now %r %r)' % (
                        B, ub.code, res.value, res.uom, float(eo), b.value, b.uom), dict(w, got=res.value, got_units=repr(res.uom), exact=float(eo), bound=bound))
                continue
            P = self.pair(ub, ua)
            if ua is ub:
                ec, Mc = Fr(B), abs(B)
                margin = 0.0
            else:
                ec = P.exact(B)
                Mc = P.magnitude(B, ec)
                margin = K * EPS * Mc
            w = {'op': op, 'a': [A, repr(ua.code)], 'b': [B, repr(ub.code)], 'b_in_units_of_a_exact': float(ec)}
            if op == '/' and (ec == 0 or abs(float(ec)) <= 1e-6 * Mc):
                rec.add('engval_divisions_skipped_small_denominator')     # float division by (nearly) zero is not a units matter
                continue
            try:
                res = apply(op, a, b)
            except Exception as e:  # noqa
                self.rep('engval_arithmetic' if op in arith else 'engval_comparison', 'raises',
                         'EngVal(%r, %r) %s EngVal(%r, %r) raised %s' % (A, ua.code, op, B, ub.code, type(e).__name__), w, exc=e)
                continue
            rec.mon('eventlog:LIS.Units.convert', len(log))
            if (len(log) != 0) != (ua is not ub) or len(log) > 1:
                rec.add('engval_unexpected_convert_calls:%s:%s:%d' % (op, klass, len(log)))
            if op in comp:
                rec.mon('engval_comparison')
                d = Fr(A) - ec
                if abs(d) <= Fr(margin) and not (ua is ub):
                    rec.add('engval_comparisons_inside_rounding_margin')
                    continue
                want = pyop[op](Fr(A), ec)
                if res is not want:
                    self.rep('engval_comparison', op, 'EngVal(%r, %r) %s EngVal(%r, %r) is %r; second operand in the first\'s units is %.17g' % (
                        A, ua.code, op, B, ub.code, res, float(ec)), dict(w, got=repr(res), expected=want))
                continue
            rec.mon('engval_arithmetic')
            if op in ('+', '+=', '-', '-='):
                exact = Fr(A) + ec if op[0] == '+' else Fr(A) - ec
                bound = margin + 2 * EPS * max(abs(A), abs(float(ec)), abs(float(exact)))
                got_v, got_u, want_u = res.value, res.uom, ua.code
                if op in ('+=', '-=') and res is not a:
                    self.rep('engval_arithmetic', op + '-identity', 'in-place %s returned a different object' % op, w)
            elif op == '/':
                exact = Fr(A) / ec
                bound = abs(float(exact)) * (margin / abs(float(ec)) * 1.001 + 2 * EPS)
                got_v, got_u, want_u = res.value, res.uom, None
                if not res.dimensionless():
                    self.rep('engval_arithmetic', '/-units', 'quotient of two %r values has units %r' % (ua.group, res.uom), dict(w, got=repr(res.uom)))
            else:
                exact = ec
                bound = margin
                if op == 'getInUnits':
                    got_v, got_u, want_u = res, None, None
                else:
                    got_v, got_u, want_u = res.value, res.uom, ua.code
            if want_u is not None and got_u != want_u:
                self.rep('engval_arithmetic', op + '-units', 'EngVal(%r, %r) %s EngVal(%r, %r) has units %r' % (A, ua.code, op, B, ub.code, got_u), dict(w, got=repr(got_u)))
            try:
                d = float(abs(Fr(got_v) - exact))
            except (TypeError, ValueError, OverflowError):
                d = float('inf')
            if d > bound:
                self.rep('engval_arithmetic', op, 'EngVal(%r, %r) %s EngVal(%r, %r) = %r, exact %.17g: off by %.3g, bound %.3g' % (
                    A, ua.code, op, B, ub.code, got_v, float(exact), d, bound), dict(w, got=got_v, exact=float(exact), bound=bound))


# ---------------------------------------------------------------------------------------------- shard
def run_shard(ctx, p):
    rec, rng = ctx.rec, ctx.rng
    rep = Reporter(rec)
    part, parts = p['part'], p['parts']
    O = Osdd(ctx, rep)
    O.extra = p.get('extra_values', 0)
    L = Lis(ctx, rep)
    try:
        if O.ok:
            # ---- A: all ordered in-dimension pairs; first units dealt round-robin
            firsts = [a for us in O.by_dim.values() for a in us][part::parts]
            evals = nt = 0
            shape_sel = part
            for a in firsts:
                e, n, shape_sel = O.pairs_from(a, shape_sel)
                evals += e
                nt += n
            rec.bulk_cases('OSDD ordered pairs inside each dimension x %d values (' % (12 + O.extra) + 'convert, convert_function, convert_array, convert_array_inplace, round trip)',
                           evals, nt, exhaustive=True,
                           sample={'pair': [firsts[0].code, O.by_dim[firsts[0].group][-1].code], 'dimension': firsts[0].group,
                                   'values': pair_values(ctx.sub_rng('sample'), firsts[0], O.by_dim[firsts[0].group][-1])})
            O.large_arrays(2 if ctx.tier == 'quick' else 12)
            for a in firsts:
                O.array_kinds(a, rng.choice(O.by_dim[a.group]))
            # ---- B: triples
            dims = [us for us in O.by_dim.values() if len(us) >= 2]
            if p['all_triples']:
                todo = [(a, b, c) for us in O.by_dim.values() if len(us) <= ALL_TRIPLES_MAX_DIM for a in us for b in us for c in us][part::parts]
                evals = 0
                for a, b, c in todo:
                    evals += O.triple(a, b, c, few_values(rng, a, 2))
                rec.bulk_cases('OSDD ordered triples of every dimension with <= %d units x 2 values' % ALL_TRIPLES_MAX_DIM, evals, 0, exhaustive=True)
            weights = [len(us) ** 2 for us in dims]       # between uniform over dimensions and uniform over triples
            for i in range(p['n_triples']):
                us = rng.choices(dims, weights)[0]
                a, b, c = rng.choice(us), rng.choice(us), rng.choice(us)
                vals = few_values(rng, a, 3)
                rec.case(('triple', a.code, c.code, b.code, vals), len({a.fscale, b.fscale, c.fscale}) > 1 or len({a.foffset, b.foffset, c.foffset}) > 1,
                         classes=['osdd-triple'], sample={'triple': [a.code, c.code, b.code], 'values': vals} if i < 1 else None)
                O.triple(a, b, c, vals)
            # ---- C: cross-dimension refusal
            allu = list(O.by_code.values())
            for i in range(p['n_cross']):
                a, b = rng.choice(allu), rng.choice(allu)
                if a.group == b.group:
                    continue
                rec.case(('cross', a.code, b.code), True, classes=['osdd-cross-dimension'])
                O.cross(a, b, 'table')
            # every ordered pair of dimensions (names that are prefixes of one another, the empty name of the currencies, ...)
            dnames = list(O.by_dim)
            dpairs = [(x, y) for x in dnames for y in dnames if x != y][part::parts]
            for x, y in dpairs:
                a, b = rng.choice(O.by_dim[x]), rng.choice(O.by_dim[y])
                O.cross(a, b, 'dimension-pair-sweep')
            rec.bulk_cases('OSDD one unit pair for every ordered pair of different dimensions', len(dpairs), len(dpairs), exhaustive=True)
            for i in range(max(20, p['n_cross'] // 20)):
                us = rng.choice(dims)
                a, b = rng.choice(us), rng.choice(us)
                variants = [d for d in (a.group.lower(), a.group.upper(), a.group.swapcase(), a.group + ' ', ' ' + a.group) if d != a.group]
                d = rng.choice(variants)
                ub = O.real[b.code]._replace(dimension=d)
                rec.case(('cross-variant', a.code, b.code, d), True, classes=['osdd-cross-dimension-name-variant'])
                if rng.random() < 0.5:
                    O.cross(a, b, 'dimension-name-variant', ub=ub)
                else:
                    O.cross(b, a, 'dimension-name-variant', ua=ub)
        # ---- D: LIS table
        L.all_pairs(part, parts)
        L.all_triples(part, parts)
        L.cross_category(part, parts)
        L.unknown(p['n_unknown'])
        # ---- E: EngVal
        L.engval(p['n_engval'])
    finally:
        L.LU.convert = L.orig_convert


LEVEL_TEXT = ('Differential run of the real conversion functions against the documented affine map evaluated in exact rational '
              'arithmetic: every ordered in-dimension pair of the OSDD table and every in-category pair and triple of the LIS table, '
              'sampled (thorough: small dimensions complete) OSDD triples, sampled cross-dimension and all cross-category refusals, '
              'EngVal arithmetic and comparison observed through an event log on LIS.Units.convert.  Complete over unit pairs; values '
              'are 12 per pair, so "all finite values" is only sampled.')
LEVEL_NOTE = 'Trusted: fractions.Fraction, json, ast, numpy array construction; the rounding bound argument (4 eps of the largest magnitude per conversion).'
TECHNIQUE = 'runtime monitoring: exhaustive-over-pairs differential against an exact-rational oracle, refusal monitors, client-boundary event log'
