"""C20 coverage-guided leg: atheris (libFuzzer) drives the real identification and the two format gates.

Run as a child process by the C20 shard that owns the 'atheris' leg:
    python -m tdv.props.c20_fuzz <corpus_dir> <artifact_prefix> [libFuzzer flags...]

The oracle inside the fuzz target is the cheap part of C20's oracle (no exception, a documented code, file object left open and
rewound); an input that trips it is written by libFuzzer as an artifact, and the shard re-identifies that artifact in-process
through the full oracle (tap, step budget, classification by mechanism), so a verdict never rests on this file alone.
"""
import io
import os
import sys


class OracleTripped(Exception):
    pass


def main(argv):
    corpus, prefix = argv[0], argv[1]
    flags = argv[2:]
    from tdv.core import env, native
    env.ensure_deps(('atheris',))
    if env.DEPS not in sys.path:
        sys.path.insert(0, env.DEPS)
    env.bootstrap_repo()
    native.preseed('plain')
    import logging
    logging.disable(logging.CRITICAL)
    import atheris
    with atheris.instrument_imports(include=['TotalDepth']):
        from TotalDepth.util import bin_file_type as B
        from TotalDepth.BIT import ReadBIT
        from TotalDepth.DAT import DAT_parser
    supported = set(B.BINARY_FILE_TYPES_SUPPORTED)

    def one(data):
        f = io.BytesIO(data)
        code = B.binary_file_type(f)
        if not isinstance(code, str) or (code != '' and code not in supported):
            raise OracleTripped('undocumented code %r' % (code,))
        if f.closed or f.tell() != 0:
            raise OracleTripped('file object closed or not rewound')
        ReadBIT.is_bit_file(io.BytesIO(data))
        try:
            text = data.decode('ascii')
        except UnicodeDecodeError:
            return
        DAT_parser.can_parse_file(io.StringIO(text))

    atheris.Setup([sys.argv[0], corpus, '-artifact_prefix=' + prefix] + flags, one)
    atheris.Fuzz()


if __name__ == '__main__':
    main(sys.argv[1:])
