"""TapFile: a real io.BytesIO that logs every read/seek, for read-containment and rewind checks."""
import io


class TapFile(io.BytesIO):
    def __init__(self, data=b'', name='<tap>'):
        super().__init__(data)
        self.name = name
        self.size = len(data)
        self.reads = []      # (offset, nbytes actually returned)
        self.n_reads = 0
        self.n_seeks = 0
        self.bytes_read = 0
        self.recording = True

    def mark(self):
        """Start a fresh observation window."""
        self.reads = []

    def read(self, n=-1):
        pos = super().tell()
        b = super().read(n)
        if self.recording:
            self.n_reads += 1
            self.bytes_read += len(b)
            if b:
                self.reads.append((pos, len(b)))
        return b

    def readline(self, n=-1):
        pos = super().tell()
        b = super().readline(n)
        if self.recording:
            self.n_reads += 1
            self.bytes_read += len(b)
            if b:
                self.reads.append((pos, len(b)))
        return b

    def seek(self, pos, whence=0):
        if self.recording:
            self.n_seeks += 1
        return super().seek(pos, whence)

    def outside(self, allowed):
        """Return the list of (offset, n) reads in the window that are not inside the allowed ranges.
        allowed: list of (start, stop) half-open."""
        bad = []
        ranges = sorted(allowed)
        merged = []
        for s, e in ranges:
            if merged and s <= merged[-1][1]:
                merged[-1][1] = max(merged[-1][1], e)
            else:
                merged.append([s, e])
        for off, n in self.reads:
            ok = False
            for s, e in merged:
                if s <= off and off + n <= e:
                    ok = True
                    break
            if not ok:
                bad.append((off, n))
        return bad


class CaptureIO(io.BytesIO):
    """BytesIO that keeps its bytes after close() (the LIS writer closes the stream it is given)."""

    def __init__(self):
        super().__init__()
        self.captured = None
        self.name = '<capture>'

    def close(self):
        if self.captured is None:
            self.captured = self.getvalue()
        super().close()

    def value(self):
        return self.captured if self.captured is not None else self.getvalue()
