"""sys.monitoring based monitors: MechanismHits (PY_START on chosen code objects) and StepCounter (LINE)."""
import importlib
import sys
import types

mon = sys.monitoring
TOOL_HITS = 3
TOOL_STEPS = 4


def _unwrap(obj):
    seen = 0
    while seen < 10:
        seen += 1
        if isinstance(obj, (staticmethod, classmethod)):
            obj = obj.__func__
        elif isinstance(obj, property):
            obj = obj.fget
        elif hasattr(obj, '__wrapped__'):
            obj = obj.__wrapped__
        elif isinstance(obj, types.MethodType):
            obj = obj.__func__
        else:
            break
    return obj


def resolve_code(modname, qualname):
    mod = importlib.import_module(modname)
    obj = mod
    parts = qualname.split('.')
    for i, part in enumerate(parts):
        if isinstance(obj, type):
            raw = None
            for klass in obj.__mro__:
                if part in klass.__dict__:
                    raw = klass.__dict__[part]
                    break
            if raw is None:
                # name-mangled private method
                mangled = '_%s%s' % (obj.__name__.lstrip('_'), part)
                for klass in obj.__mro__:
                    if mangled in klass.__dict__:
                        raw = klass.__dict__[mangled]
                        break
            if raw is None:
                raise AttributeError('%s.%s' % (modname, qualname))
            obj = raw
        else:
            obj = getattr(obj, part)
    obj = _unwrap(obj)
    code = getattr(obj, '__code__', None)
    return code


class MechanismHits:
    """Counts calls of named repo functions by code object, so that references bound before any
    decoration (dispatch maps, ``from m import f``) cannot hide from the counter."""

    def __init__(self, specs):
        self.specs = list(specs)
        self.codes = {}
        self.counts = {}
        self.unresolved = []
        self.native = []

    def start(self):
        for modname, qual in self.specs:
            label = '%s:%s' % (modname, qual)
            try:
                code = resolve_code(modname, qual)
            except Exception as e:  # a mechanism that vanished is reported, not fatal
                self.unresolved.append('%s (%s)' % (label, type(e).__name__))
                continue
            if code is None:
                self.native.append(label)
                continue
            self.codes[code] = label
            self.counts[label] = 0
        if not self.codes:
            return
        try:
            mon.use_tool_id(TOOL_HITS, 'tdv-hits')
        except ValueError:
            pass
        counts, codes = self.counts, self.codes

        def cb(code, offset):
            lab = codes.get(code)
            if lab is not None:
                counts[lab] += 1

        mon.register_callback(TOOL_HITS, mon.events.PY_START, cb)
        for code in self.codes:
            mon.set_local_events(TOOL_HITS, code, mon.events.PY_START)

    def stop(self):
        if not self.codes:
            return
        for code in self.codes:
            try:
                mon.set_local_events(TOOL_HITS, code, 0)
            except Exception:
                pass
        mon.register_callback(TOOL_HITS, mon.events.PY_START, None)
        try:
            mon.free_tool_id(TOOL_HITS)
        except Exception:
            pass


class StepBudgetExceeded(BaseException):
    """BaseException so that `except Exception` in the code under test cannot swallow it."""


class StepCounter:
    """Logical clock: counts LINE events while active; raises StepBudgetExceeded over budget."""

    def __init__(self):
        self.n = 0
        self.budget = None
        self.sticky = 0
        self.active = False
        try:
            mon.use_tool_id(TOOL_STEPS, 'tdv-steps')
        except ValueError:
            pass
        mon.register_callback(TOOL_STEPS, mon.events.LINE, self._cb)

    def _cb(self, code, line):
        self.n += 1
        if self.budget is not None and self.n > self.budget:
            # re-armed when sticky: code under test that swallows BaseException meets the exception again later
            self.budget = self.budget + self.sticky if self.sticky else None
            raise StepBudgetExceeded(self.n)

    def run(self, fn, budget=None):
        """Run fn() counting LINE events.  Returns (result, steps)."""
        self.n = 0
        self.budget = budget
        mon.set_events(TOOL_STEPS, mon.events.LINE)
        try:
            return fn(), self.n
        finally:
            mon.set_events(TOOL_STEPS, 0)
            self.budget = None

    def close(self):
        mon.set_events(TOOL_STEPS, 0)
        mon.register_callback(TOOL_STEPS, mon.events.LINE, None)
        try:
            mon.free_tool_id(TOOL_STEPS)
        except Exception:
            pass
