"""icontract contracts applied to the real TotalDepth classes from the harness (no repo edit).

Each install_* function is idempotent, counts evaluations in COUNTS and records breaches in BREACHES
(a list of (contract name, message)); conditions *record and return True* so that a breach never
changes the behaviour that is being observed.  The check that relies on a contract asserts COUNTS > 0.
"""
import collections
import threading

COUNTS = collections.Counter()
BREACHES = []
_guard = threading.local()
_installed = set()


def _breach(name, msg):
    if len(BREACHES) < 200:
        BREACHES.append((name, msg))


def drain():
    out = list(BREACHES)
    del BREACHES[:]
    return out


class _NoReentry:
    def __enter__(self):
        if getattr(_guard, 'on', False):
            return False
        _guard.on = True
        return True

    def __exit__(self, *a):
        pass


def _guarded(fn):
    """Run fn unless we are already inside a contract evaluation (conditions call the class's own methods)."""
    def wrapper(*a, **k):
        if getattr(_guard, 'on', False):
            return True
        _guard.on = True
        try:
            fn(*a, **k)
        except Exception as e:  # a contract that cannot evaluate is recorded, not raised
            _breach(fn.__name__ + ':error', '%s: %s' % (type(e).__name__, e))
        finally:
            _guard.on = False
        return True
    wrapper.__name__ = fn.__name__
    return wrapper


# ------------------------------------------------------------------ common.Slice
def install_slice_contracts():
    if 'slice' in _installed:
        return
    _installed.add('slice')
    import icontract
    from TotalDepth.common import Slice as S

    class SliceContractBroken(Exception):
        pass

    def indices_consistent(self, length, result):
        return _indices_consistent(self, length, result)

    @_guarded
    def _indices_consistent(self, length, result):
        COUNTS['Slice.indices'] += 1
        if any(b <= a for a, b in zip(result, result[1:])):
            _breach('Slice.indices', '%s on %d: not strictly increasing: %r' % (self, length, result[:20]))
        if result and (result[0] < 0 or result[-1] >= length):
            _breach('Slice.indices', '%s on %d: outside range: %r' % (self, length, result[:20]))
        c = self.count(length)
        g = list(self.gen_indices(length))
        if c != len(result) or g != result:
            _breach('Slice.indices', '%s on %d: count=%d len(indices)=%d gen=%r' % (self, length, c, len(result), g[:20]))
        if result and self.first(length) != result[0]:
            _breach('Slice.indices', '%s on %d: first()=%d but indices[0]=%d' % (self, length, self.first(length), result[0]))

    def count_consistent(self, length, result):
        return _count_consistent(self, length, result)

    @_guarded
    def _count_consistent(self, length, result):
        COUNTS['Slice.count'] += 1
        n = sum(1 for _ in self.gen_indices(length))
        if n != result:
            _breach('Slice.count', '%s on %d: count()=%r but %d indices generated' % (self, length, result, n))

    for klass in (S.Slice, S.Sample):
        klass.indices = icontract.ensure(indices_consistent, error=SliceContractBroken)(klass.indices)
        klass.count = icontract.ensure(count_consistent, error=SliceContractBroken)(klass.count)
