"""icontract contracts applied to the real TotalDepth classes from the harness (no repo edit).

Each install_* function is idempotent, counts evaluations in COUNTS and records breaches in BREACHES
(a list of (contract name, message)); conditions *record and return True* so that a breach never
changes the behaviour that is being observed.  The check that relies on a contract asserts COUNTS > 0.
"""
import collections
import threading

COUNTS = collections.Counter()
BREACHES = []
_guard = threading.local()
_installed = set()


def _breach(name, msg):
    if len(BREACHES) < 200:
        BREACHES.append((name, msg))


def drain():
    out = list(BREACHES)
    del BREACHES[:]
    return out


class _NoReentry:
    def __enter__(self):
        if getattr(_guard, 'on', False):
            return False
        _guard.on = True
        return True

    def __exit__(self, *a):
        pass


def _guarded(fn):
    """Run fn unless we are already inside a contract evaluation (conditions call the class's own methods)."""
    def wrapper(*a, **k):
        if getattr(_guard, 'on', False):
            return True
        _guard.on = True
        try:
            fn(*a, **k)
        except Exception as e:  # a contract that cannot evaluate is recorded, not raised
            _breach(fn.__name__ + ':error', '%s: %s' % (type(e).__name__, e))
        finally:
            _guard.on = False
        return True
    wrapper.__name__ = fn.__name__
    return wrapper


# ------------------------------------------------------------------ common.Slice
def install_slice_contracts():
    if 'slice' in _installed:
        return
    _installed.add('slice')
    import icontract
    from TotalDepth.common import Slice as S

    class SliceContractBroken(Exception):
        pass

    def indices_consistent(self, length, result):
        return _indices_consistent(self, length, result)

    @_guarded
    def _indices_consistent(self, length, result):
        COUNTS['Slice.indices'] += 1
        # strictly monotonic: increasing, or (a Slice with a negative step) decreasing
        diffs = [b - a for a, b in zip(result, result[1:])]
        if diffs and not (all(d > 0 for d in diffs) or all(d < 0 for d in diffs)):
            _breach('Slice.indices', '%s on %d: not strictly monotonic: %r' % (self, length, result[:20]))
        if result and (min(result) < 0 or max(result) >= length):
            _breach('Slice.indices', '%s on %d: outside range: %r' % (self, length, result[:20]))
        c = self.count(length)
        g = list(self.gen_indices(length))
        if c != len(result) or g != result:
            _breach('Slice.indices', '%s on %d: count=%d len(indices)=%d gen=%r' % (self, length, c, len(result), g[:20]))
        if result and self.first(length) != result[0]:
            _breach('Slice.indices', '%s on %d: first()=%d but indices[0]=%d' % (self, length, self.first(length), result[0]))

    def count_consistent(self, length, result):
        return _count_consistent(self, length, result)

    @_guarded
    def _count_consistent(self, length, result):
        COUNTS['Slice.count'] += 1
        n = sum(1 for _ in self.gen_indices(length))
        if n != result:
            _breach('Slice.count', '%s on %d: count()=%r but %d indices generated' % (self, length, result, n))

    for klass in (S.Slice, S.Sample):
        klass.indices = icontract.ensure(indices_consistent, error=SliceContractBroken)(klass.indices)
        klass.count = icontract.ensure(count_consistent, error=SliceContractBroken)(klass.count)


# ------------------------------------------------------------------ RP66V1 pFile (C01, C02)
def install_rp66v1_file_contracts():
    """Contracts on the live RP66V1 physical-file classes:

    FileLogicalData  invariant: exactly one of ``_bytes`` / ``logical_data`` is set; once sealed the length is frozen.
                     add_bytes grows the buffer by exactly len(by); seal() keeps exactly the accumulated bytes.
    FileRead         after _seek_and_read_next_logical_record_segment_header and after get_file_logical_data the
                     segment header lies inside the current visible record
                     (vr.position + 4 <= lrsh.position and lrsh.next_position <= vr.next_position);
                     _read_full_logical_data returns at most logical_data_length bytes and leaves the file cursor
                     inside the current segment; get_file_logical_data returns a sealed object for the requested
                     position with at most ``length`` bytes when length >= 0.
    """
    if 'rp66v1_file' in _installed:
        return
    _installed.add('rp66v1_file')
    import weakref
    import icontract
    from TotalDepth.RP66V1.core import pFile

    class RP66V1FileContractBroken(Exception):
        pass

    sealed_len = weakref.WeakKeyDictionary()

    # ---- FileLogicalData
    def fld_one_representation(self):
        return _fld_one_representation(self)

    @_guarded
    def _fld_one_representation(self):
        COUNTS['FileLogicalData.invariant'] += 1
        b, ld = getattr(self, '_bytes', None), getattr(self, 'logical_data', None)
        if (b is None) == (ld is None):
            _breach('FileLogicalData.invariant', 'not exactly one of _bytes (%s) and logical_data (%s) is set' % (
                type(b).__name__, type(ld).__name__))
        elif b is None:
            n = len(ld.bytes)
            was = sealed_len.setdefault(self, n)
            if was != n:
                _breach('FileLogicalData.invariant', 'sealed with %d bytes, now holds %d' % (was, n))

    def fld_add_grows_by_len(self, by, OLD):
        return _fld_add_grows_by_len(self, by, OLD)

    @_guarded
    def _fld_add_grows_by_len(self, by, OLD):
        COUNTS['FileLogicalData.add_bytes'] += 1
        if self._bytes is None or len(self._bytes) != OLD.tdv_len + len(by) or bytes(self._bytes[OLD.tdv_len:]) != bytes(by):
            _breach('FileLogicalData.add_bytes', 'held %d bytes, added %d, now %s' % (
                OLD.tdv_len, len(by), None if self._bytes is None else len(self._bytes)))

    def fld_seal_keeps_bytes(self, OLD):
        return _fld_seal_keeps_bytes(self, OLD)

    @_guarded
    def _fld_seal_keeps_bytes(self, OLD):
        COUNTS['FileLogicalData.seal'] += 1
        if self._bytes is not None or self.logical_data is None or self.logical_data.bytes != OLD.tdv_bytes:
            _breach('FileLogicalData.seal', 'seal() of %d accumulated bytes left %s' % (
                len(OLD.tdv_bytes), None if self.logical_data is None else len(self.logical_data.bytes)))
        elif self.logical_data.index != 0:
            _breach('FileLogicalData.seal', 'sealed LogicalData does not start at index 0 (%r)' % self.logical_data.index)

    def _len_of(self):
        return len(self._bytes) if self._bytes is not None else -1

    def _bytes_of(self):
        return bytes(self._bytes) if self._bytes is not None else None

    K = pFile.FileLogicalData
    K.add_bytes = icontract.snapshot(_len_of, name='tdv_len')(
        icontract.ensure(fld_add_grows_by_len, error=RP66V1FileContractBroken)(K.add_bytes))
    K.seal = icontract.snapshot(_bytes_of, name='tdv_bytes')(
        icontract.ensure(fld_seal_keeps_bytes, error=RP66V1FileContractBroken)(K.seal))
    icontract.invariant(fld_one_representation, error=RP66V1FileContractBroken)(K)

    # ---- FileRead cursor containment
    def _containment(self, name):
        vr, sh = self.visible_record, self.logical_record_segment_header
        if not (vr.position + pFile.VisibleRecord.NUMBER_OF_HEADER_BYTES <= sh.position and sh.next_position <= vr.next_position):
            _breach(name, 'segment header [0x%x, 0x%x) is not inside the current visible record [0x%x + 4, 0x%x)' % (
                sh.position, sh.next_position, vr.position, vr.next_position))
            return False
        return True

    def fr_header_inside_visible_record(self):
        return _fr_header_inside_visible_record(self)

    @_guarded
    def _fr_header_inside_visible_record(self):
        COUNTS['FileRead.seek_next_header'] += 1
        _containment(self, 'FileRead.seek_next_header')

    def fr_read_inside_segment(self, result):
        return _fr_read_inside_segment(self, result)

    @_guarded
    def _fr_read_inside_segment(self, result):
        COUNTS['FileRead.read_full_logical_data'] += 1
        sh = self.logical_record_segment_header
        ldl = sh.logical_data_length
        tell = self.file.tell()
        if len(result) > ldl:
            _breach('FileRead.read_full_logical_data', 'returned %d bytes from a segment with %d logical data bytes' % (len(result), ldl))
        if not (sh.logical_data_position <= tell <= sh.next_position) or tell != sh.logical_data_position + ldl:
            _breach('FileRead.read_full_logical_data', 'file cursor 0x%x after reading the body of the segment [0x%x, 0x%x) with %d logical data bytes' % (
                tell, sh.position, sh.next_position, ldl))
        _containment(self, 'FileRead.read_full_logical_data')

    def fr_fetch_consistent(self, position, offset, length, result):
        return _fr_fetch_consistent(self, position, offset, length, result)

    @_guarded
    def _fr_fetch_consistent(self, position, offset, length, result):
        COUNTS['FileRead.get_file_logical_data'] += 1
        if result._bytes is not None or result.logical_data is None:
            _breach('FileRead.get_file_logical_data', 'result is not sealed')
        elif length >= 0 and len(result.logical_data.bytes) > length:
            _breach('FileRead.get_file_logical_data.length', 'offset=%d length=%d returned %d bytes' % (
                offset, length, len(result.logical_data.bytes)))
        if result.position.vr_position != position.vr_position or result.position.lrsh_position != position.lrsh_position:
            _breach('FileRead.get_file_logical_data', 'result position %s for requested %s' % (result.position, position))
        if not self.logical_record_segment_header.attributes.is_last:
            _breach('FileRead.get_file_logical_data', 'returned with the cursor on a segment that is not the last of the record')
        _containment(self, 'FileRead.get_file_logical_data')

    F = pFile.FileRead
    F._seek_and_read_next_logical_record_segment_header = icontract.ensure(
        fr_header_inside_visible_record, error=RP66V1FileContractBroken)(F._seek_and_read_next_logical_record_segment_header)
    F._read_full_logical_data = icontract.ensure(
        fr_read_inside_segment, error=RP66V1FileContractBroken)(F._read_full_logical_data)
    F.get_file_logical_data = icontract.ensure(
        fr_fetch_consistent, error=RP66V1FileContractBroken)(F.get_file_logical_data)


# ------------------------------------------------------------------ LIS.core.PhysRec / TifMarker (C05)
def install_lis_physrec_contracts(wellformed_files=True):
    """Postconditions on the live PhysRecRead / TifMarkerRead state named by property C05
    (_ldIndex/_ldTell/_mustReadHead/startOfLr, tifBack/tifNext/previousTell).

    Class-level (any input): the meaning of the cursor fields - 0 <= _ldIndex <= ldLen, _ldTell counts the bytes of
    the logical record and equals _ldIndex inside its first physical record, ldLen = prLen - header - trailer fields
    of the attribute bits, the stream position is exactly PR start + TIF + header + _ldIndex (or the PR end once the
    trailer is consumed), a sized call never returns more than asked, seekLr forgets everything including the TIF chain.
    wellformed_files=True adds what only holds for files without PR padding written per LIS-79/TIF: the TIF next
    pointer equals PR start + 12 + PR length, marker types are 0/1, back <= position < next.
    Counters: COUNTS['PhysRecRead.<method>'], COUNTS['TifMarkerRead.<method>']."""
    if 'lis_physrec' in _installed:
        return
    _installed.add('lis_physrec')
    import icontract
    from TotalDepth.LIS.core import PhysRec as P
    from TotalDepth.LIS.core import TifMarker as T

    class LisPhysRecContractBroken(Exception):
        pass

    R = P.PhysRecRead
    TRAILER_BITS = (0x0200, 0x0400, 0x1000)

    def _tiflen(self):
        return 12 if (self.tif is not None and self.tif.hasTif) else 0

    def _state(self, where):
        """The cursor invariant shared by all read-side postconditions."""
        if self.isEOF:
            return
        if not 0 <= self._ldIndex <= self.ldLen:
            _breach(where, 'index outside the physical record: _ldIndex=%r ldLen=%r' % (self._ldIndex, self.ldLen))
        if self._ldTell < self._ldIndex:
            _breach(where, '_ldTell=%r < _ldIndex=%r' % (self._ldTell, self._ldIndex))
        if self._isLrStart and self._ldTell != self._ldIndex:
            _breach(where, 'first PR of the logical record but _ldTell=%r != _ldIndex=%r' % (self._ldTell, self._ldIndex))
        if self.startOfLr > self.startPrPos:
            _breach(where, 'startOfLr=%r after startPrPos=%r' % (self.startOfLr, self.startPrPos))
        if self.prLen > 0:
            tl = 2 * sum(1 for b in TRAILER_BITS if self.prAttr & b)
            if self.ldLen != self.prLen - 4 - tl:
                _breach(where, 'ldLen=%r but prLen=%r attributes=0x%04x (trailer %d)' % (self.ldLen, self.prLen, self.prAttr, tl))
            here = self.stream.tell()
            if not self._mustReadHead:
                want = self.startPrPos + _tiflen(self) + 4 + self._ldIndex
                if here != want:
                    _breach(where, 'stream at %d, cursor says %d (PR at %d, _ldIndex=%d)' % (here, want, self.startPrPos, self._ldIndex))
            elif not self.pad_modulo:
                want = self.startPrPos + _tiflen(self) + self.prLen
                if here != want:
                    _breach(where, 'trailer consumed but stream at %d, PR ends at %d' % (here, want))

    # ---- _readHead
    def lisphys_head_ok(self):
        return _lisphys_head_ok(self)

    @_guarded
    def _lisphys_head_ok(self):
        COUNTS['PhysRecRead._readHead'] += 1
        if self.isEOF:
            return
        if self._ldIndex != 0 or self._mustReadHead:
            _breach('PhysRecRead._readHead', 'after a header: _ldIndex=%r _mustReadHead=%r' % (self._ldIndex, self._mustReadHead))
        if self.stream.tell() != self.startPrPos + _tiflen(self) + 4:
            _breach('PhysRecRead._readHead', 'stream at %d after the header of the PR at %d' % (self.stream.tell(), self.startPrPos))
        if self._isLrStart and self.startOfLr != self.startPrPos:
            _breach('PhysRecRead._readHead', 'first PR of a logical record at %d but startOfLr=%d' % (self.startPrPos, self.startOfLr))
        _state(self, 'PhysRecRead._readHead')
        if wellformed_files and _tiflen(self):
            if self.tif.tifType != 0:
                _breach('PhysRecRead._readHead', 'a physical record header was parsed at 0x%x after a TIF marker of type %r' % (self.stream.tell() - 4, self.tif.tifType))
            elif self.tif.tifNext != self.startPrPos + 12 + self.prLen:
                _breach('PhysRecRead._readHead', 'TIF next 0x%x but PR at 0x%x has length %d' % (self.tif.tifNext, self.startPrPos, self.prLen))

    # ---- _readTail
    def lisphys_tail_ok(self):
        return _lisphys_tail_ok(self)

    @_guarded
    def _lisphys_tail_ok(self):
        COUNTS['PhysRecRead._readTail'] += 1
        if not self._mustReadHead:
            _breach('PhysRecRead._readTail', '_mustReadHead not set after the trailer')
        _state(self, 'PhysRecRead._readTail')

    # ---- __readOrSkip
    def lisphys_ros_ok(self, theSize):
        return _lisphys_ros_ok(self, theSize)

    @_guarded
    def _lisphys_ros_ok(self, theSize):
        COUNTS['PhysRecRead.__readOrSkip'] += 1
        if self.isEOF:
            return
        if theSize < 0 and (not self._mustReadHead or self.prAttr & 1):
            _breach('PhysRecRead.__readOrSkip', 'read-all left _mustReadHead=%r successor=%r' % (self._mustReadHead, bool(self.prAttr & 1)))
        _state(self, 'PhysRecRead.__readOrSkip')

    # ---- readLrBytes / skipLrBytes
    def lisphys_read_ok(self, theSize, theLd, result):
        return _lisphys_read_ok(self, theSize, theLd, result)

    @_guarded
    def _lisphys_read_ok(self, theSize, theLd, result):
        COUNTS['PhysRecRead.readLrBytes'] += 1
        if result is not None:
            if not isinstance(result, (bytes, bytearray)):
                _breach('PhysRecRead.readLrBytes', 'returned %s' % type(result).__name__)
            elif theSize >= 0 and theLd is None and len(result) > theSize:
                _breach('PhysRecRead.readLrBytes', 'asked %d got %d bytes' % (theSize, len(result)))
        _state(self, 'PhysRecRead.readLrBytes')

    def lisphys_skip_ok(self, theSize, result):
        return _lisphys_skip_ok(self, theSize, result)

    @_guarded
    def _lisphys_skip_ok(self, theSize, result):
        COUNTS['PhysRecRead.skipLrBytes'] += 1
        if not isinstance(result, int) or result < 0 or (theSize >= 0 and result > theSize):
            _breach('PhysRecRead.skipLrBytes', 'asked %r skipped %r' % (theSize, result))
        _state(self, 'PhysRecRead.skipLrBytes')

    # ---- skipToNextLr / seekLr
    def lisphys_next_ok(self, result):
        return _lisphys_next_ok(self, result)

    @_guarded
    def _lisphys_next_ok(self, result):
        COUNTS['PhysRecRead.skipToNextLr'] += 1
        if self.isEOF:
            return
        if self._mustReadHead or self._ldIndex != 0 or self._ldTell != 0 or not self._isLrStart or self.startOfLr != self.startPrPos:
            _breach('PhysRecRead.skipToNextLr', 'not at the start of a logical record: _mustReadHead=%r _ldIndex=%r _ldTell=%r isLrStart=%r startOfLr=%r startPrPos=%r' % (
                self._mustReadHead, self._ldIndex, self._ldTell, self._isLrStart, self.startOfLr, self.startPrPos))
        _state(self, 'PhysRecRead.skipToNextLr')

    def lisphys_seek_ok(self, offset, result):
        return _lisphys_seek_ok(self, offset, result)

    @_guarded
    def _lisphys_seek_ok(self, offset, result):
        COUNTS['PhysRecRead.seekLr'] += 1
        if result != offset or self.stream.tell() != offset:
            _breach('PhysRecRead.seekLr', 'seekLr(%r) returned %r, stream at %r' % (offset, result, self.stream.tell()))
        if not self._mustReadHead or self._ldIndex or self._ldTell or self.isEOF or not self._isLrStart or self.prAttr:
            _breach('PhysRecRead.seekLr', 'state survives a seek: _mustReadHead=%r _ldIndex=%r _ldTell=%r isEOF=%r prAttr=%r' % (
                self._mustReadHead, self._ldIndex, self._ldTell, self.isEOF, self.prAttr))
        if self.tif.previousTell is not None or self.tif.markers() != (0, 0, 0):
            _breach('PhysRecRead.seekLr', 'TIF chain survives a seek: previousTell=%r markers=%r' % (self.tif.previousTell, self.tif.markers()))

    R._readHead = icontract.ensure(lisphys_head_ok, error=LisPhysRecContractBroken)(R._readHead)
    R._readTail = icontract.ensure(lisphys_tail_ok, error=LisPhysRecContractBroken)(R._readTail)
    R._PhysRecRead__readOrSkip = icontract.ensure(lisphys_ros_ok, error=LisPhysRecContractBroken)(R._PhysRecRead__readOrSkip)
    R.readLrBytes = icontract.ensure(lisphys_read_ok, error=LisPhysRecContractBroken)(R.readLrBytes)
    R.skipLrBytes = icontract.ensure(lisphys_skip_ok, error=LisPhysRecContractBroken)(R.skipLrBytes)
    R.skipToNextLr = icontract.ensure(lisphys_next_ok, error=LisPhysRecContractBroken)(R.skipToNextLr)
    R.seekLr = icontract.ensure(lisphys_seek_ok, error=LisPhysRecContractBroken)(R.seekLr)

    # ---- TifMarkerRead._read: the chain while reading linearly
    M = T.TifMarkerRead

    def lisphys_tif_before(self):
        return (self.previousTell, self.tifType, self.tifBack, self.tifNext, self.hasPrevious)

    def lisphys_tif_ok(self, theStream, result, OLD):
        return _lisphys_tif_ok(self, theStream, result, OLD)

    @_guarded
    def _lisphys_tif_ok(self, theStream, result, OLD):
        COUNTS['TifMarkerRead._read'] += 1
        if not self.hasTif:
            return
        if result is None or theStream.tell() != result + 12 or self.previousTell != result:
            _breach('TifMarkerRead._read', 'marker at %r: stream at %r previousTell=%r' % (result, theStream.tell(), self.previousTell))
            return
        prev_tell, _t, _b, prev_next, had_previous = OLD.lisphys_tif_before
        if had_previous and not self._prPad:
            if result != prev_next:
                _breach('TifMarkerRead._read', 'marker read at 0x%x but the previous marker points to 0x%x' % (result, prev_next))
            if self.tifBack != prev_tell:
                _breach('TifMarkerRead._read', 'marker at 0x%x points back to 0x%x, previous marker was at 0x%x' % (result, self.tifBack, prev_tell))
        if wellformed_files:
            if self.tifType not in (0, 1) or self.tifNext < result + 12 or self.tifBack > result or (result and self.tifBack >= result):
                _breach('TifMarkerRead._read', 'marker at 0x%x is (%r, 0x%x, 0x%x)' % (result, self.tifType, self.tifBack, self.tifNext))

    def lisphys_tif_reset_ok(self):
        return _lisphys_tif_reset_ok(self)

    @_guarded
    def _lisphys_tif_reset_ok(self):
        COUNTS['TifMarkerRead.reset'] += 1
        if self.previousTell is not None or self.markers() != (0, 0, 0) or self.hasPrevious:
            _breach('TifMarkerRead.reset', 'previousTell=%r markers=%r after reset' % (self.previousTell, self.markers()))

    f = icontract.ensure(lisphys_tif_ok, error=LisPhysRecContractBroken)(M._read)
    M._read = icontract.snapshot(lisphys_tif_before, name='lisphys_tif_before')(f)
    M.reset = icontract.ensure(lisphys_tif_reset_ok, error=LisPhysRecContractBroken)(M.reset)


# ------------------------------------------------------------------ common.Rle / LIS.core.Rle (C16)
def install_rle_contracts():
    """RLEItem.add / RLE.add / RLEType01.add postconditions with shadow counters.

    Shadow state lives here, keyed weakly by the live object: the number of add() calls seen (and, for
    RLEType01, the number of frames added) since the object was first observed, started from the
    snapshot taken before that first call.  num_values() / totalFrames() must follow the shadow."""
    if 'rle' in _installed:
        return
    _installed.add('rle')
    import weakref
    import icontract
    from TotalDepth.common import Rle as R
    from TotalDepth.LIS.core import Rle as LR

    class RleContractBroken(Exception):
        pass

    eps = 2.0 ** -52
    shadow_n = weakref.WeakKeyDictionary()
    shadow_frames = weakref.WeakKeyDictionary()

    def close(a, b, *scale):
        if isinstance(a, float) or isinstance(b, float):
            m = max([abs(a), abs(b)] + [abs(s) for s in scale])
            return abs(a - b) <= 4 * eps * m
        return a == b

    def item_shape(it, where):
        if not isinstance(it.repeat, int) or it.repeat < 0:
            _breach(where, 'repeat=%r is not a count >= 0 in %s' % (it.repeat, it))
        elif len(it) != it.repeat + 1:
            _breach(where, 'len(item)=%r but repeat+1=%r in %s' % (len(it), it.repeat + 1, it))

    # ---- RLEItem.add(self, v) -> bool
    def item_state(self):
        return (self.datum, self.stride, self.repeat)

    def item_add_ok(self, v, result, OLD):
        return _item_add_ok(self, v, result, OLD)

    @_guarded
    def _item_add_ok(self, v, result, OLD):
        COUNTS['RLEItem.add'] += 1
        datum, stride, repeat = OLD.rle_item_state
        item_shape(self, 'RLEItem.add')
        if result:
            if self.repeat != repeat + 1 or self.datum != datum or (repeat >= 1 and self.stride != stride):
                _breach('RLEItem.add', 'absorbed %r: (datum,stride,repeat) %r -> %r' % (v, (datum, stride, repeat), item_state(self)))
            elif not close(self.datum + self.stride * self.repeat, v, self.datum, self.stride * self.repeat):
                _breach('RLEItem.add', 'absorbed %r but the run %s now ends at %r' % (v, self, self.datum + self.stride * self.repeat))
        elif item_state(self) != (datum, stride, repeat):
            _breach('RLEItem.add', 'refused %r but changed %r -> %r' % (v, (datum, stride, repeat), item_state(self)))

    R.RLEItem.add = icontract.snapshot(item_state, name='rle_item_state')(
        icontract.ensure(item_add_ok, error=RleContractBroken)(R.RLEItem.add))

    # ---- RLE.add(self, v)
    def rle_state(self):
        return (self.num_values(), len(self.rle_items))

    def rle_add_ok(self, v, OLD):
        return _rle_add_ok(self, v, OLD)

    @_guarded
    def _rle_add_ok(self, v, OLD):
        COUNTS['RLE.add'] += 1
        n0, items0 = OLD.rle_state
        want = shadow_n.get(self, n0) + 1
        shadow_n[self] = want
        n = self.num_values()
        if n != want:
            _breach('RLE.add', 'num_values()=%r after %d values were added (shadow count) adding %r: %s' % (n, want, v, self))
        if len(self.rle_items) - items0 not in (0, 1):
            _breach('RLE.add', 'number of runs went %d -> %d on one add' % (items0, len(self.rle_items)))
        if self.rle_items:
            item_shape(self.rle_items[-1], 'RLE.add')
        if self.function is None and isinstance(v, (int, float)) and not isinstance(v, bool):
            last = self.last()
            if last is None or not close(last, v, self.rle_items[-1].datum):
                _breach('RLE.add', 'added %r but last()=%r: %s' % (v, last, self))

    R.RLE.add = icontract.snapshot(rle_state, name='rle_state')(
        icontract.ensure(rle_add_ok, error=RleContractBroken)(R.RLE.add))

    # ---- RLEType01.add(self, tellLrPos, numFrameS, xAxisValue)
    def t01_state(self):
        return (self.num_values(), self.totalFrames())

    def t01_add_ok(self, tellLrPos, numFrameS, xAxisValue, OLD):
        return _t01_add_ok(self, tellLrPos, numFrameS, xAxisValue, OLD)

    @_guarded
    def _t01_add_ok(self, tellLrPos, numFrameS, xAxisValue, OLD):
        COUNTS['RLEType01.add'] += 1
        n0, f0 = OLD.rle_t01_state
        want_n = shadow_n.get(self, n0) + 1
        want_f = shadow_frames.get(self, f0) + numFrameS
        shadow_n[self] = want_n
        shadow_frames[self] = want_f
        if self.num_values() != want_n:
            _breach('RLEType01.add', 'num_values()=%r after %d records were added (shadow count)' % (self.num_values(), want_n))
        if self.totalFrames() != want_f:
            _breach('RLEType01.add', 'totalFrames()=%r but %d frames were added (shadow count)' % (self.totalFrames(), want_f))
        for it in self.rle_items[-1:]:
            item_shape(it, 'RLEType01.add')
            if it.numFrames < 1 and numFrameS >= 1:
                _breach('RLEType01.add', 'run with %r frames per record' % it.numFrames)
        if self.function is None and numFrameS >= 1 and want_f == self.totalFrames():
            for f, off in ((want_f - numFrameS, 0), (want_f - 1, numFrameS - 1)):
                got = self.tellLrForFrame(f)
                if tuple(got) != (tellLrPos, off):
                    _breach('RLEType01.add', 'after add(%r, %r, %r): tellLrForFrame(%d)=%r expected %r' % (
                        tellLrPos, numFrameS, xAxisValue, f, got, (tellLrPos, off)))

    LR.RLEType01.add = icontract.snapshot(t01_state, name='rle_t01_state')(
        icontract.ensure(t01_add_ok, error=RleContractBroken)(LR.RLEType01.add))


# ------------------------------------------------------------------ LAS.core.LASRead.LASSectionArray (C09, C10)
def install_las_contracts():
    """LASSectionArray: after each add_member_line the wrap buffer holds less than one frame, members grow by at most one
    row and wrapped rows are complete; after finalise the buffers are drained, every channel has one value per pending
    frame and the absent-value mask of every non-index channel is exactly (data == null)."""
    if 'las' in _installed:
        return
    _installed.add('las')
    import icontract
    import numpy as np
    from TotalDepth.LAS.core import LASRead as LR

    class LASContractBroken(Exception):
        pass

    def las_members_before(self):
        return len(self.members)

    def las_line_ok(self, line_number, line, OLD):
        return _las_line_ok(self, line_number, line, OLD)

    @_guarded
    def _las_line_ok(self, line_number, line, OLD):
        COUNTS['LASSectionArray.add_member_line'] += 1
        n = len(self._mnemonics_units)
        b = len(self._unwrap_buffer)
        grown = len(self.members) - OLD.las_members_before
        if self._wrap:
            if b >= n:
                _breach('LASSectionArray.add_member_line',
                        'wrap buffer holds a complete frame after line %d: buffer_len=%d frame_size=%d' % (line_number, b, n))
            if grown == 1 and len(self.members[-1]) != n:
                _breach('LASSectionArray.add_member_line',
                        'wrapped frame of %d values stored for frame_size=%d' % (len(self.members[-1]), n))
        elif b:
            _breach('LASSectionArray.add_member_line', 'unwrapped mode but buffer_len=%d' % b)
        if grown not in (0, 1):
            _breach('LASSectionArray.add_member_line', 'members changed by %d on one line' % grown)
        if grown == 0 and not self._wrap and line.strip():
            _breach('LASSectionArray.add_member_line', 'unwrapped data line %d stored no row' % line_number)

    def las_pending_frames(self):
        return len(self.members) + (1 if self._unwrap_buffer else 0)

    def las_finalised(self, OLD):
        return _las_finalised(self, OLD)

    @_guarded
    def _las_finalised(self, OLD):
        COUNTS['LASSectionArray.finalise'] += 1
        pending = OLD.las_pending_frames
        if self._unwrap_buffer or self.members:
            _breach('LASSectionArray.finalise', 'buffers not drained: buffer_len=%d members=%d' % (
                len(self._unwrap_buffer), len(self.members)))
        if pending:
            lens = [len(ch.array) for ch in self.frame_array.channels]
            if any(x != pending for x in lens):
                _breach('LASSectionArray.finalise', 'channel lengths %r for %d pending frames' % (lens[:20], pending))
            if len(self.mnemonic_index_map) > pending or (self.raise_on_error and len(self.mnemonic_index_map) != pending):
                _breach('LASSectionArray.finalise', 'index map has %d entries for %d frames' % (len(self.mnemonic_index_map), pending))
            for i, ch in enumerate(self.frame_array.channels):
                if i == 0:
                    continue
                arr = ch.array
                if not isinstance(arr, np.ma.MaskedArray):
                    _breach('LASSectionArray.finalise', 'channel %r not masked after finalise' % (ch.ident,))
                    continue
                data = np.ma.getdata(arr)
                if data.dtype == object:
                    want = np.array([[x is None for x in row] for row in data.reshape(len(data), -1)]).reshape(data.shape)
                else:
                    want = (data == float(self._null))
                if not np.array_equal(np.ma.getmaskarray(arr), want):
                    _breach('LASSectionArray.finalise', 'mask of channel %r is not (data == null %r)' % (ch.ident, self._null))

    K = LR.LASSectionArray
    K.add_member_line = icontract.snapshot(las_members_before, name='las_members_before')(
        icontract.ensure(las_line_ok, error=LASContractBroken)(K.add_member_line))
    K.finalise = icontract.snapshot(las_pending_frames, name='las_pending_frames')(
        icontract.ensure(las_finalised, error=LASContractBroken)(K.finalise))


# ------------------------------------------------------------------ LIS FrameSet / RLEType01 (C06)
def install_lis_frameset_contracts():
    """Contracts on LIS.core.FrameSet.FrameSet and LIS.core.Rle.RLEType01 (record and return True)."""
    if 'lis_frameset' in _installed:
        return
    _installed.add('lis_frameset')
    import math
    import icontract
    from TotalDepth.LIS.core import FrameSet as FS
    from TotalDepth.LIS.core import Rle as R

    class LisFrameSetContractBroken(Exception):
        pass

    # ---- RLEType01.tellLrForFrame(fNum) -> (tell of the record, frame offset in the record)
    def lis_tell_consistent(self, fNum, result):
        return _lis_tell_consistent(self, fNum, result)

    @_guarded
    def _lis_tell_consistent(self, fNum, result):
        COUNTS['RLEType01.tellLrForFrame'] += 1
        tell, off = result
        n = 0
        for item in self.rle_items:
            for t, nf, _x in item.values():      # sequential walk, the method under contract uses random access
                if fNum < n + nf:
                    if (t, fNum - n) != (tell, off):
                        _breach('RLEType01.tellLrForFrame', 'frame %d: returned (0x%x, %d), sequential walk gives (0x%x, %d)' % (
                            fNum, tell, off, t, fNum - n))
                    return
                n += nf
        _breach('RLEType01.tellLrForFrame', 'frame %d: returned (0x%x, %d) but only %d frames are recorded' % (fNum, tell, off, n))

    def lis_total_consistent(self, result):
        return _lis_total_consistent(self, result)

    @_guarded
    def _lis_total_consistent(self, result):
        COUNTS['RLEType01.totalFrames'] += 1
        n = sum(nf for item in self.rle_items for _t, nf, _x in item.values())
        if n != result:
            _breach('RLEType01.totalFrames', 'totalFrames()=%r, sequential walk counts %d' % (result, n))

    R.RLEType01.tellLrForFrame = icontract.ensure(lis_tell_consistent, error=LisFrameSetContractBroken)(R.RLEType01.tellLrForFrame)
    R.RLEType01.totalFrames = icontract.ensure(lis_total_consistent, error=LisFrameSetContractBroken)(R.RLEType01.totalFrames)

    # ---- FrameSet.__init__: the array is the requested sub-matrix shape
    def lis_frameset_shape(self, theDfsr, theFrameSlice):
        return _lis_frameset_shape(self, theDfsr, theFrameSlice)

    @_guarded
    def _lis_frameset_shape(self, theDfsr, theFrameSlice):
        COUNTS['FrameSet.__init__'] += 1
        chans = list(self.genExtChIndexes())
        if chans != sorted(set(chans)) or any(c < 0 or c >= len(theDfsr.dsbBlocks) for c in chans):
            _breach('FrameSet.__init__', 'channel indexes not sorted/unique/in range: %r' % chans)
            return
        nvals = 0
        for c in chans:
            b = theDfsr.dsbBlocks[c]
            nvals += b.values()
        nfr = len(range(theFrameSlice.start or 0, theFrameSlice.stop, theFrameSlice.step or 1))
        if self.frames.shape != (nfr, nvals):
            _breach('FrameSet.__init__', 'array shape %r, slice %r and channels %r need (%d, %d)' % (
                self.frames.shape, theFrameSlice, chans, nfr, nvals))
        if theDfsr.ebs.recordingMode == 1 and len(self._indrXVector) != nfr:
            _breach('FrameSet.__init__', 'implied X vector has %d entries for %d frames' % (len(self._indrXVector), nfr))

    # ---- FrameSet.setFrameBytes(by, fr, chFrom, chTo): the frame exists, the byte count is that of the named channels
    def lis_setbytes_pre(self, by, fr, chFrom, chTo):
        return _lis_setbytes_pre(self, by, fr, chFrom, chTo)

    @_guarded
    def _lis_setbytes_pre(self, by, fr, chFrom, chTo):
        COUNTS['FrameSet.setFrameBytes:pre'] += 1
        if not 0 <= fr < len(self._frames):
            _breach('FrameSet.setFrameBytes', 'frame %r outside the %d loaded frames' % (fr, len(self._frames)))
        need = 0
        if chFrom is None:
            from TotalDepth.LIS.core import RepCode
            need += RepCode.lisSize(self.xAxisDecl.depthRepCode)
        if chTo is not None:
            for ch in range(chFrom or 0, chTo + 1):
                need += self._catS[self.internalChIdx(ch)].lisSize
        if need != len(by):
            _breach('FrameSet.setFrameBytes', 'frame %r channels %r..%r need %d bytes, given %d' % (fr, chFrom, chTo, need, len(by)))

    def lis_setbytes_post(self, fr, chFrom, chTo):
        return _lis_setbytes_post(self, fr, chFrom, chTo)

    @_guarded
    def _lis_setbytes_post(self, fr, chFrom, chTo):
        COUNTS['FrameSet.setFrameBytes:post'] += 1
        if chTo is not None and 0 <= fr < len(self._frames):
            a = self.valueIdxStartExtCh(chFrom or 0)
            last = self.internalChIdx(chTo)
            b = self._intChValIdxS[last] + self._catS[last].numValues
            row = self._frames[fr, a:b]
            if not all(math.isfinite(v) for v in row):
                _breach('FrameSet.setFrameBytes', 'frame %d channels %r..%r hold non-finite values after the write' % (fr, chFrom, chTo))
        if chFrom is None and 0 <= fr < len(self._frames) and not math.isfinite(self._indrXVector[fr]):
            _breach('FrameSet.setFrameBytes', 'implied X of frame %d not finite after the write' % fr)

    def lis_setx_pre(self, fr, val):
        return _lis_setx_pre(self, fr, val)

    @_guarded
    def _lis_setx_pre(self, fr, val):
        COUNTS['FrameSet.setIndirectX'] += 1
        if self._indrXVector is None or not 0 <= fr < len(self._indrXVector):
            _breach('FrameSet.setIndirectX', 'frame %r outside the implied X vector' % (fr,))
        elif not math.isfinite(val):
            _breach('FrameSet.setIndirectX', 'frame %d: X value %r' % (fr, val))

    K = FS.FrameSet
    K.__init__ = icontract.ensure(lis_frameset_shape, error=LisFrameSetContractBroken)(K.__init__)
    K.setFrameBytes = icontract.require(lis_setbytes_pre, error=LisFrameSetContractBroken)(
        icontract.ensure(lis_setbytes_post, error=LisFrameSetContractBroken)(K.setFrameBytes))
    K.setIndirectX = icontract.require(lis_setx_pre, error=LisFrameSetContractBroken)(K.setIndirectX)


# ------------------------------------------------------------------ RP66V1 frame arrays (C04)
def install_rp66v1_framearray_contracts():
    """Contracts on the live frame-array classes used by LogicalFile.populate_frame_array:

    FrameArray.init_arrays(n)            every channel array has shape (n, *dimensions) and the channel's dtype
    FrameArray.init_arrays_partial(n, S) channel 0 and the channels named in S have shape (n, *dimensions), all others (0, *dimensions)
    RP66V1FrameChannel.read(ld, f)       consumes exactly count * size(rep_code) bytes of the logical data
    RP66V1FrameChannel.seek(ld)          advances the logical data by exactly count * size(rep_code) bytes and stores nothing
    (sizes from RP66V1 Appendix B, written here).
    """
    if 'rp66v1_framearray' in _installed:
        return
    _installed.add('rp66v1_framearray')
    import icontract
    import numpy as np
    from TotalDepth.common import LogPass as CLP
    from TotalDepth.RP66V1.core import LogPass as RLP

    class FrameArrayContractBroken(Exception):
        pass

    size_of = {1: 2, 2: 4, 3: 8, 4: 12, 5: 4, 6: 4, 7: 8, 8: 16, 9: 24, 10: 8, 11: 16, 12: 1, 13: 2, 14: 4, 15: 1, 16: 2, 17: 4, 21: 8, 26: 1}

    def _shape_ok(name, ch, want):
        if tuple(ch.array.shape) != (want,) + tuple(ch.dimensions) or ch.array.dtype != np.dtype(ch.np_dtype):
            _breach(name, 'channel %r: array shape %r dtype %s, expected %r dtype %s' % (
                ch.ident, tuple(ch.array.shape), ch.array.dtype, (want,) + tuple(ch.dimensions), np.dtype(ch.np_dtype)))

    def fa_init_all(self, number_of_frames):
        return _fa_init_all(self, number_of_frames)

    @_guarded
    def _fa_init_all(self, number_of_frames):
        COUNTS['FrameArray.init_arrays'] += 1
        for ch in self.channels:
            _shape_ok('FrameArray.init_arrays', ch, number_of_frames)

    def fa_init_partial(self, number_of_frames, channels):
        return _fa_init_partial(self, number_of_frames, channels)

    @_guarded
    def _fa_init_partial(self, number_of_frames, channels):
        COUNTS['FrameArray.init_arrays_partial'] += 1
        for c, ch in enumerate(self.channels):
            _shape_ok('FrameArray.init_arrays_partial', ch, number_of_frames if (c == 0 or ch.ident in channels) else 0)

    def fc_read_consumes(self, ld, frame_number, OLD):
        return _fc_read_consumes(self, ld, frame_number, OLD)

    @_guarded
    def _fc_read_consumes(self, ld, frame_number, OLD):
        COUNTS['RP66V1FrameChannel.read'] += 1
        want = size_of.get(self.rep_code, 0) * self.count
        if ld.index - OLD.tdv_index != want:
            _breach('RP66V1FrameChannel.read', 'channel %r rep code %r count %r consumed %d bytes, expected %d' % (
                self.ident, self.rep_code, self.count, ld.index - OLD.tdv_index, want))

    def fc_seek_skips(self, ld, OLD):
        return _fc_seek_skips(self, ld, OLD)

    @_guarded
    def _fc_seek_skips(self, ld, OLD):
        COUNTS['RP66V1FrameChannel.seek'] += 1
        want = size_of.get(self.rep_code, 0) * self.count
        if ld.index - OLD.tdv_index != want:
            _breach('RP66V1FrameChannel.seek', 'channel %r rep code %r count %r skipped %d bytes, expected %d' % (
                self.ident, self.rep_code, self.count, ld.index - OLD.tdv_index, want))
        if len(self.array) != 0:
            _breach('RP66V1FrameChannel.seek', 'channel %r was skipped but holds %d frames' % (self.ident, len(self.array)))

    def _index_of(ld):
        return ld.index

    A = CLP.FrameArray
    A.init_arrays = icontract.ensure(fa_init_all, error=FrameArrayContractBroken)(A.init_arrays)
    A.init_arrays_partial = icontract.ensure(fa_init_partial, error=FrameArrayContractBroken)(A.init_arrays_partial)
    C = RLP.RP66V1FrameChannel
    C.read = icontract.snapshot(_index_of, name='tdv_index')(icontract.ensure(fc_read_consumes, error=FrameArrayContractBroken)(C.read))
    C.seek = icontract.snapshot(_index_of, name='tdv_index')(icontract.ensure(fc_seek_skips, error=FrameArrayContractBroken)(C.seek))


# ------------------------------------------------------------------ util.XmlWrite (C18)
def install_xmlwrite_contracts():
    """XmlStream (and XhtmlStream / SVGWriter, which inherit the methods): the open-element stack and the can-indent stack
    have the same length after every public call; a start tag is only pending while an element is open; after __exit__ both
    stacks are empty and no start tag is pending."""
    if 'xmlwrite' in _installed:
        return
    _installed.add('xmlwrite')
    import icontract
    from TotalDepth.util import XmlWrite as X

    class XmlStreamContractBroken(Exception):
        pass

    def stacks_consistent(self):
        return _stacks_consistent(self)

    @_guarded
    def _stacks_consistent(self):
        COUNTS['XmlStream.stacks'] += 1
        if len(self._elemStk) != len(self._canIndentStk):
            _breach('XmlStream.stacks', 'open elements %r but %d can-indent flags' % (self._elemStk[-6:], len(self._canIndentStk)))
        if self._inElem and not self._elemStk:
            _breach('XmlStream.stacks', 'a start tag is pending but no element is open')

    def closed_after_exit(self):
        return _closed_after_exit(self)

    @_guarded
    def _closed_after_exit(self):
        COUNTS['XmlStream.exit'] += 1
        if self._elemStk or self._canIndentStk or self._inElem:
            _breach('XmlStream.exit', 'after __exit__: open elements %r, %d can-indent flags, start tag pending %r' % (
                self._elemStk[-6:], len(self._canIndentStk), self._inElem))

    S = X.XmlStream
    for name in ('startElement', 'endElement', 'characters', 'literal', 'comment', 'pI', 'writeECMAScript', 'xmlSpacePreserve'):
        setattr(S, name, icontract.ensure(stacks_consistent, error=XmlStreamContractBroken)(getattr(S, name)))
    S.__exit__ = icontract.ensure(closed_after_exit, error=XmlStreamContractBroken)(S.__exit__)
