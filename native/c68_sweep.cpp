// C07 sanitizer leg: standalone sweep of the tree's LISRepCode.cpp (linked unchanged) under ASan + UBSan.
//
//   c68_sweep [from68 <lo> <hi> <stride>] [from49] [to68 <count> <seed>] ...
//
// from68: for w = lo; w < hi; w += stride (64 bit loop variable, so hi = 2^32 is allowed)
//           _from68(w) must be the value of the integer-arithmetic reference below, bit for bit (zero: either sign);
//           r = _to68(_from68(w)) must decode (reference) to the same value   ("encoding a decoded value gives back
//           an equivalent word").
// from49: all 2^16 words of _from49 against the reference.
// to68  : <count> finite doubles from a splitmix64 stream; for 2^-128 <= |v| < 2^127 the reference decode d of
//           _to68(v) must satisfy 2^22 * |d - v| < |v| (checked with 128 bit integers); d never has the opposite
//           sign of v; _to68(d) decodes to d again.
//
// The reference never calls ldexp/frexp/pow: it assembles the IEEE-754 binary64 bit pattern of m * 2^e from the
// integer fields.  Nothing here is shared with TotalDepth.  Results are printed as key=value lines; details of at
// most MAXDETAIL failures per kind.  The exit status is 0 unless the arguments are unusable: the caller decides from
// the printed counts and from the sanitizer log files (halt_on_error=0, -fsanitize-recover=all).
#include "LISRepCode.h"

#include <cinttypes>
#include <cstdio>
#include <cstdlib>
#include <cstring>

static const int MAXDETAIL = 40;

static inline uint64_t bits_of(double v) { uint64_t b; memcpy(&b, &v, sizeof b); return b; }
static inline double double_of(uint64_t b) { double v; memcpy(&v, &b, sizeof v); return v; }

// IEEE-754 binary64 pattern of m * 2^e2; m != 0 needs -1022 <= e2 + floor(log2|m|) <= 1023 (always true here).
static uint64_t make_bits(int64_t m, int e2) {
    if (m == 0) return 0;
    uint64_t sign = m < 0 ? 1 : 0;
    uint64_t a = sign ? (uint64_t)(-m) : (uint64_t)m;
    int p = 63 - __builtin_clzll(a);
    int E = e2 + p;
    uint64_t frac = p <= 52 ? (a << (52 - p)) : (a >> (p - 52));
    frac &= (1ull << 52) - 1;
    return (sign << 63) | ((uint64_t)(E + 1023) << 52) | frac;
}

// LIS-79 code 68 from the format definition: 24 bit two's complement fraction (sign bit + 23 bits), exponent
// excess 128 and one's complemented when the sign is set.
static void ref68_fields(uint32_t w, int64_t *m, int *e2) {
    uint32_t s = w >> 31, e = (w >> 23) & 0xFF, f = w & 0x7FFFFF;
    *m = (int64_t)f - ((int64_t)s << 23);
    *e2 = (int)(s ? 255 - e : e) - 128 - 23;
}
static uint64_t ref68(uint32_t w) { int64_t m; int e2; ref68_fields(w, &m, &e2); return make_bits(m, e2); }

// LIS-79 code 49: 12 bit two's complement fraction, 4 bit unsigned exponent.
static uint64_t ref49(uint16_t w) {
    int64_t m = (w >> 4) & 0xFFF;
    if (m & 0x800) m -= 0x1000;
    return make_bits(m, (int)(w & 0xF) - 11);
}

static inline bool same_value(uint64_t a, uint64_t b) {
    const uint64_t absmask = ~(1ull << 63);
    if ((a & absmask) == 0 && (b & absmask) == 0) return true;   // +0 == -0
    return a == b;
}

static uint64_t sm_state;
static inline uint64_t splitmix() {
    uint64_t z = (sm_state += 0x9E3779B97F4A7C15ull);
    z = (z ^ (z >> 30)) * 0xBF58476D1CE4E5B9ull;
    z = (z ^ (z >> 27)) * 0x94D049BB133111EBull;
    return z ^ (z >> 31);
}

static uint64_t compose(uint64_t sign, int unbiased, uint64_t frac52) {
    return (sign << 63) | ((uint64_t)(unbiased + 1023) << 52) | (frac52 & ((1ull << 52) - 1));
}

// finite double number i of the stream
static uint64_t next_double_bits() {
    uint64_t r = splitmix();
    unsigned kind = r & 15;
    uint64_t sign = (r >> 4) & 1;
    uint64_t x = splitmix();
    if (kind < 8) {                         // the neighbourhood of the code 68 range, dense fraction
        int e = -160 + (int)((r >> 8) % 296);
        return compose(sign, e, x);
    }
    if (kind < 11) {                        // sparse fractions: k leading random bits, then zeros or ones
        int e = -160 + (int)((r >> 8) % 296);
        int k = (int)((r >> 20) % 30);
        uint64_t frac = k ? ((x >> (64 - k)) << (52 - k)) : 0;
        if ((r >> 28) & 1) frac |= ((1ull << (52 - k)) - 1);
        if ((r >> 29) & 1) frac ^= 1;
        return compose(sign, e, frac);
    }
    if (kind < 13) {                        // integers
        int nb = 1 + (int)((r >> 8) % 53);
        double v = (double)(int64_t)(x >> (64 - nb));
        return bits_of(sign ? -v : v);
    }
    // any finite double (denormals included)
    uint64_t b = x;
    if (((b >> 52) & 0x7FF) == 0x7FF) b &= ~(1ull << 62);
    return b;
}

static int usage() {
    fprintf(stderr, "usage: c68_sweep [from68 lo hi stride] [from49] [to68 count seed] ...\n");
    return 2;
}

int main(int argc, char **argv) {
    int i = 1;
    if (argc < 2) return usage();
    while (i < argc) {
        if (!strcmp(argv[i], "from68")) {
            if (i + 3 >= argc) return usage();
            uint64_t lo = strtoull(argv[i + 1], 0, 0), hi = strtoull(argv[i + 2], 0, 0), stride = strtoull(argv[i + 3], 0, 0);
            i += 4;
            if (!stride || hi > (1ull << 32)) return usage();
            uint64_t n = 0, bad_ref = 0, bad_rt = 0, first = lo, last = lo;
            for (uint64_t w64 = lo; w64 < hi; w64 += stride) {
                uint32_t w = (uint32_t)w64;
                uint64_t exp = ref68(w);
                double v = _from68(w);
                uint64_t got = bits_of(v);
                n++;
                last = w64;
                if (!same_value(got, exp)) {
                    if (bad_ref++ < (uint64_t)MAXDETAIL)
                        printf("MISMATCH kind=from68 word=0x%08" PRIx32 " got=0x%016" PRIx64 " expected=0x%016" PRIx64 "\n", w, got, exp);
                }
                uint32_t r = _to68(v);
                uint64_t back = ref68(r);
                if (!same_value(back, exp)) {
                    if (bad_rt++ < (uint64_t)MAXDETAIL)
                        printf("MISMATCH kind=roundtrip word=0x%08" PRIx32 " value=0x%016" PRIx64 " reencoded=0x%08" PRIx32 " redecoded=0x%016" PRIx64 "\n", w, exp, r, back);
                }
            }
            printf("RESULT leg=from68 lo=%" PRIu64 " hi=%" PRIu64 " stride=%" PRIu64 " first=%" PRIu64 " last=%" PRIu64
                   " checked=%" PRIu64 " mismatch_ref=%" PRIu64 " roundtrip_bad=%" PRIu64 "\n", lo, hi, stride, first, last, n, bad_ref, bad_rt);
        } else if (!strcmp(argv[i], "from49")) {
            i += 1;
            uint64_t bad = 0;
            for (uint32_t w = 0; w < 65536; ++w) {
                uint64_t exp = ref49((uint16_t)w), got = bits_of(_from49((uint16_t)w));
                if (!same_value(got, exp)) {
                    if (bad++ < (uint64_t)MAXDETAIL)
                        printf("MISMATCH kind=from49 word=0x%04" PRIx32 " got=0x%016" PRIx64 " expected=0x%016" PRIx64 "\n", w, got, exp);
                }
            }
            printf("RESULT leg=from49 checked=65536 mismatch_ref=%" PRIu64 "\n", bad);
        } else if (!strcmp(argv[i], "to68")) {
            if (i + 2 >= argc) return usage();
            uint64_t count = strtoull(argv[i + 1], 0, 0);
            sm_state = strtoull(argv[i + 2], 0, 0);
            i += 3;
            uint64_t inrange = 0, negative = 0, bad_bound = 0, bad_sign = 0, bad_idem = 0;
            for (uint64_t k = 0; k < count; ++k) {
                uint64_t vb = next_double_bits();
                double v = double_of(vb);
                uint32_t r = _to68(v);
                int64_t md; int ed;
                ref68_fields(r, &md, &ed);
                uint64_t vsign = vb >> 63;
                int vexp = (int)((vb >> 52) & 0x7FF);
                if (vsign) negative++;
                if (md != 0 && (uint64_t)(md < 0) != vsign) {
                    if (bad_sign++ < (uint64_t)MAXDETAIL)
                        printf("MISMATCH kind=to68sign value=0x%016" PRIx64 " word=0x%08" PRIx32 "\n", vb, r);
                }
                // 2^-128 <= |v| < 2^127  <=>  biased exponent in [1023-128, 1023+126]
                if (vexp >= 1023 - 128 && vexp <= 1023 + 126) {
                    inrange++;
                    bool ok = false;
                    if (md != 0 && (uint64_t)(md < 0) == vsign) {      // same sign: compare magnitudes
                        uint64_t mv = (vb & ((1ull << 52) - 1)) | (1ull << 52);
                        uint64_t ma = md < 0 ? (uint64_t)(-md) : (uint64_t)md;
                        int ev = vexp - 1023 - 52;
                        int c = ev < ed ? ev : ed;
                        if (ev - c <= 60 && ed - c <= 60) {
                            unsigned __int128 V = (unsigned __int128)mv << (ev - c), D = (unsigned __int128)ma << (ed - c);
                            unsigned __int128 diff = D > V ? D - V : V - D;
                            ok = (diff >> 100) == 0 && (diff << 22) < V;
                        }
                    }
                    if (!ok && bad_bound++ < (uint64_t)MAXDETAIL)
                        printf("MISMATCH kind=to68bound value=0x%016" PRIx64 " word=0x%08" PRIx32 " decoded=0x%016" PRIx64 "\n", vb, r, make_bits(md, ed));
                }
                uint64_t d = make_bits(md, ed);
                uint32_t r2 = _to68(double_of(d));
                if (!same_value(ref68(r2), d)) {
                    if (bad_idem++ < (uint64_t)MAXDETAIL)
                        printf("MISMATCH kind=roundtrip word=0x%08" PRIx32 " value=0x%016" PRIx64 " reencoded=0x%08" PRIx32 " redecoded=0x%016" PRIx64 "\n", r, d, r2, ref68(r2));
                }
            }
            printf("RESULT leg=to68 checked=%" PRIu64 " negative=%" PRIu64 " inrange=%" PRIu64 " bound_bad=%" PRIu64
                   " sign_bad=%" PRIu64 " roundtrip_bad=%" PRIu64 "\n", count, negative, inrange, bad_bound, bad_sign, bad_idem);
        } else {
            return usage();
        }
    }
    fflush(stdout);
    return 0;
}
